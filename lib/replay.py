"""Replay of solver models and known-finding witnesses against the real code.

A replay never writes into /repo: an in-package _test.go is injected with
`go test -overlay`.
"""
import json, math, os, re, struct, subprocess, sys, tempfile

PKG_DIRS = {"starlark": "starlark", "compile": "internal/compile", "time": "lib/time", "math": "lib/math",
            "json": "lib/json", "proto": "lib/proto", "starlarkstruct": "starlarkstruct", "resolve": "resolve", "syntax": "syntax"}

INT_TYPES = {"int", "int8", "int16", "int32", "int64", "uint", "uint8", "uint16", "uint32", "uint64", "uintptr", "byte", "rune"}


def go_test(repo, goenv, pkg_dir, test_src, scratch, timeout=120):
    os.makedirs(scratch, exist_ok=True)
    tf = tempfile.NamedTemporaryFile("w", suffix="_test.go", dir=scratch, delete=False)
    tf.write(test_src)
    tf.close()
    target = os.path.join(repo, pkg_dir, "zz_verif_replay_test.go")
    ov = os.path.join(scratch, "overlay_%d.json" % os.getpid())
    json.dump({"Replace": {target: tf.name}}, open(ov, "w"))
    cmd = "ulimit -v 8000000; go test -overlay %s -vet=off -count=1 -timeout 60s -v -run 'TestVerifReplay$' ./%s" % (ov, pkg_dir)
    try:
        r = subprocess.run(["bash", "-c", cmd], cwd=repo, env=goenv, stdout=subprocess.PIPE, stderr=subprocess.STDOUT, text=True, timeout=timeout)
        return r.stdout
    except subprocess.TimeoutExpired:
        return "REPLAY-TIMEOUT"


def witness_test_src(k):
    pkg = k.get("pkg", "starlark")
    imports = set(k.get("imports", [])) | {"fmt", "testing"}
    if "starlark" in k:
        body = STARLARK_BODY[pkg if pkg in STARLARK_BODY else "starlark"] % json.dumps(k["starlark"])
        imports |= STARLARK_IMPORTS[pkg if pkg in STARLARK_IMPORTS else "starlark"]
    else:
        body = k["go"]
    imp = "\n".join('\t"%s"' % i if " " not in i else "\t" + i for i in sorted(imports))
    return "package %s\n\nimport (\n%s\n)\n\nfunc TestVerifReplay(t *testing.T) {\n\tdefer func() { if r := recover(); r != nil { fmt.Printf(\"VERIF-OUT: PANIC %%v\\n\", r) } }()\n%s\n}\n" % (
        k.get("gopkg", pkg), imp, body)


STARLARK_IMPORTS = {
    "starlark": {"go.starlark.net/syntax"},
    "time": {"go.starlark.net/syntax", "go.starlark.net/starlark"},
}
STARLARK_BODY = {
    "starlark": """\tthread := &Thread{Name: "replay"}
\topts := &syntax.FileOptions{Set: true, While: true, TopLevelControl: true, GlobalReassign: true, Recursion: true}
\tg, err := ExecFileOptions(opts, thread, "w.star", %s, nil)
\tif err != nil { fmt.Printf("VERIF-OUT: error %%v\\n", err); return }
\tfmt.Printf("VERIF-OUT: %%v\\n", g["result"])""",
    "time": """\tthread := &starlark.Thread{Name: "replay"}
\topts := &syntax.FileOptions{Set: true, While: true, TopLevelControl: true, GlobalReassign: true, Recursion: true}
\tg, err := starlark.ExecFileOptions(opts, thread, "w.star", %s, starlark.StringDict{"time": Module})
\tif err != nil { fmt.Printf("VERIF-OUT: error %%v\\n", err); return }
\tfmt.Printf("VERIF-OUT: %%v\\n", g["result"])""",
}


def extract_out(out):
    return [l[len("VERIF-OUT: "):].strip() for l in out.splitlines() if l.startswith("VERIF-OUT: ")]


def run_witness(k, repo, goenv, scratch):
    """Returns (defect still present?, transcript)."""
    w = k.get("witness")
    if not w:
        return False, "no witness recorded"
    src = witness_test_src(w)
    out = go_test(repo, goenv, PKG_DIRS.get(w.get("pkg", "starlark"), w.get("pkg", "starlark")), src, scratch)
    lines = extract_out(out)
    want = w.get("buggy_output")
    if "buggy_regex" in w:
        ok = any(re.search(w["buggy_regex"], l) for l in lines)
    else:
        ok = want in lines
    return ok, out


# ---------------------------------------------------------------------------
# model replay

def go_literal(gotype, kinds, vals):
    """Go expression for a parameter from leaf values; None if unsupported."""
    base = gotype.split(".")[-1]
    if gotype in INT_TYPES:
        v = vals[0]
        if v is None:
            v = 0
        return "%s(%d)" % (gotype, v) if not (gotype.startswith("u") and v < 0) else None
    if gotype == "bool":
        return "true" if vals[0] else "false"
    if gotype in ("float64", "starlark.Float", "Float"):
        v = vals[0]
        if v is None:
            v = 0.0
        bits = struct.unpack(">Q", struct.pack(">d", v))[0]
        inner = "math.Float64frombits(%d)" % bits
        return inner if gotype == "float64" else "Float(%s)" % inner
    return None


STRUCT_FIELDS = {
    "starlark.rangeValue": ("rangeValue", ["start", "stop", "step", "len"]),
    "compile.pclinecol": ("pclinecol", ["pc", "line", "col"]),
}
NAMED_INTS = {"syntax.Token": "syntax.Token", "starlark.Side": "Side", "compile.Opcode": "Opcode", "starlark.Bool": "Bool",
              "time.Duration": "Duration", "starlark.Float": "Float"}


def param_expr(p, model):
    vals = [model.get(l.strip("|")) if l.strip("|") in model else model.get(l) for l in p["leaves"]]
    gt = p["gotype"]
    if gt in INT_TYPES or gt == "bool" or gt == "float64":
        return go_literal(gt, p["kinds"], vals)
    if gt == "starlark.Int":
        v = model.get("pv!" + p["leaves"][0])
        if v is None:
            return None
        return "MakeBigInt(func() *big.Int { z, _ := new(big.Int).SetString(\"%d\", 10); return z }())" % v
    if gt in STRUCT_FIELDS:
        name, fields = STRUCT_FIELDS[gt]
        return "%s{%s}" % (name, ", ".join("%s: %d" % (f, v or 0) for f, v in zip(fields, vals)))
    if gt in NAMED_INTS:
        v = vals[0]
        if gt == "starlark.Bool":
            return "Bool(%s)" % ("true" if v else "false")
        if gt == "starlark.Float":
            return go_literal("starlark.Float", p["kinds"], vals)
        return "%s(%d)" % (NAMED_INTS[gt], v or 0)
    return None


def replay_model(o, model, repo, goenv, scratch):
    fn = o.get("fn", "")
    parts = fn.split(".")
    pkg = parts[0].split("/")[-1]
    if pkg not in PKG_DIRS:
        return {"confirmed": False, "why": "package %s not replayable" % pkg}
    params = o.get("params") or []
    exprs = []
    for p in params:
        e = param_expr(p, model)
        if e is None:
            return {"confirmed": False, "why": "parameter %s of type %s cannot be reconstructed from the model (heap-shaped or abstract)" % (p["name"], p["gotype"])}
        exprs.append(e)
    if len(parts) == 3:  # method
        call = "(%s).%s(%s)" % (exprs[0], parts[2], ", ".join(exprs[1:]))
    else:
        call = "%s(%s)" % (parts[1], ", ".join(exprs))
    imports = {"fmt", "testing"}
    if "math." in call:
        imports.add("math")
    if "syntax." in call:
        imports.add("go.starlark.net/syntax")
    if "big." in call:
        imports.add("math/big")
    nres = o.get("nresults", 1)
    lhs = ", ".join("r%d" % i for i in range(nres))
    fmts = " ".join("%#v" for _ in range(nres))
    if nres == 0:
        body = "\t%s\n\tfmt.Printf(\"VERIF-OUT: returned\\n\")" % call
    else:
        body = "\t%s := %s\n\tfmt.Printf(\"VERIF-OUT: %s\\n\", %s)" % (lhs, call, fmts, lhs)
    imp = "\n".join('\t"%s"' % i for i in sorted(imports))
    src = "package %s\n\nimport (\n%s\n)\n\nfunc TestVerifReplay(t *testing.T) {\n\tdefer func() { if r := recover(); r != nil { fmt.Printf(\"VERIF-OUT: PANIC %%v\\n\", r) } }()\n%s\n}\n" % (pkg, imp, body)
    out = go_test(repo, goenv, PKG_DIRS[pkg], src, scratch)
    lines = extract_out(out)
    rep = {"call": call, "output": lines, "confirmed": False}
    if not lines:
        rep["transcript"] = out[-1500:]
        return rep
    kind = o.get("kind", "")
    if lines[0].startswith("PANIC"):
        # any panic confirms a safety obligation and also a violated postcondition of a nopanic function
        rep["confirmed"] = kind in ("panic", "bounds", "slice", "div0", "nilderef", "typeassert", "makesize", "post") or kind.startswith("pre:")
        rep["observed"] = "panic"
        return rep
    if kind == "post" and o.get("replay_smt"):
        # substitute inputs and real outputs into the clause
        vals = parse_go_values(lines[0], nres)
        if vals is None:
            rep["why"] = "could not parse real outputs"
            return rep
        script = "(set-logic ALL)\n" + o["replay_smt"]
        for p in params:
            for l in p["leaves"]:
                key = l.strip("|")
                if key in model or l in model:
                    script += "(assert (= %s %s))\n" % (l, smt_val(model.get(key, model.get(l))))
        ok = True
        for (rname, kind_), v in zip(o.get("result_consts", []), vals):
            if v is None:
                ok = False
                break
            script += "(assert (= %s %s))\n" % (rname, smt_val(v))
        if not ok:
            rep["why"] = "result not scalar"
            return rep
        script += "(check-sat)\n"
        pth = os.path.join(scratch, "replay_eval_%d.smt2" % os.getpid())
        open(pth, "w").write(script)
        r = subprocess.run(["z3-new", "-T:20", pth], stdout=subprocess.PIPE, stderr=subprocess.STDOUT, text=True)
        ans = r.stdout.strip().splitlines()[0] if r.stdout.strip() else "unknown"
        rep["clause_false_on_real_outputs"] = ans
        rep["confirmed"] = ans == "sat"
    return rep


def smt_val(v):
    if isinstance(v, bool):
        return "true" if v else "false"
    if isinstance(v, int):
        return "(- %d)" % -v if v < 0 else str(v)
    if isinstance(v, float):
        bits = struct.unpack(">Q", struct.pack(">d", v))[0]
        b = bin(bits)[2:].zfill(64)
        return "(fp #b%s #b%s #b%s)" % (b[0], b[1:12], b[12:])
    return str(v)


def parse_go_values(line, n):
    toks = line.split()
    if len(toks) != n:
        return None
    out = []
    for t in toks:
        if re.fullmatch(r"-?\d+", t):
            out.append(int(t))
        elif t in ("true", "false"):
            out.append(t == "true")
        elif re.fullmatch(r"0x[0-9a-f]+", t):
            out.append(int(t, 16))
        else:
            try:
                out.append(float(t))
            except ValueError:
                out.append(None)
    return out


def replay_file(path, repo, goenv):
    d = json.load(open(path))
    print(json.dumps({k: d.get(k) for k in ("property", "obligation", "clause", "reason", "model")}, indent=1, default=str))
    rep = d.get("replay") or {}
    if rep.get("call"):
        print("re-running", rep["call"])
        scratch = tempfile.mkdtemp(prefix="verif-replay-")
        o = {"fn": d.get("function"), "kind": d.get("kind"), "params": d.get("params_info") or []}
        print("recorded output:", rep.get("output"))
    print("confirmed" if rep.get("confirmed") else "no-failing-input-found (obligation-level violation; see solver_output)")
    return 1
