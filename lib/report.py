"""Discharging, known findings, baseline, evidence and violation reporting."""
import concurrent.futures as cf, importlib.util, importlib.machinery, json, os, re, sys, time

VERIF = os.path.dirname(os.path.dirname(os.path.abspath(__file__)))
_loader = importlib.machinery.SourceFileLoader("check_main", os.path.join(VERIF, "check"))
_spec = importlib.util.spec_from_loader("check_main", _loader)
chk = importlib.util.module_from_spec(_spec)
_loader.exec_module(chk)
import replay
import bounded

TRUSTED_BASE = [
    "go/packages + go/types + go/ssa (x/tools v0.50.0, go1.26.8) build faithful SSA of /repo",
    "vcgen's SSA->SMT encoding (/verif/vcgen; mitigated by the must-fail mutant corpus in /verif/selftest and by replay)",
    "z3 4.8.12, z3 5.1.0, cvc5 1.0.3 are sound (three solvers raced; thorough tier rejects contradicting answers)",
    "64-bit int; Go compiler implements the language spec",
]


def load_known():
    p = os.path.join(VERIF, "known_findings.json")
    if not os.path.exists(p):
        return []
    return json.load(open(p)).get("findings", [])


def load_exceptions():
    p = os.path.join(VERIF, "baseline", "exceptions.json")
    if not os.path.exists(p):
        return []
    return json.load(open(p)).get("exceptions", [])


def exception_for(name, exceptions):
    import fnmatch
    for e in exceptions:
        if fnmatch.fnmatchcase(name, e["pattern"]):
            return e
    return None


def load_baseline():
    p = os.path.join(VERIF, "baseline", "obligations.json")
    if not os.path.exists(p):
        return {}
    return json.load(open(p))


def run_properties(props, args, seed, scratch, manifest):
    t_start = time.time()
    thorough = args.tier == "thorough"
    timeout = 120 if thorough else 10
    extra = []
    if args.fn:
        extra += ["-fn", args.fn]
    if getattr(args, "split", False):
        extra += ["-split"]
    out, log, gen_s = chk.run_vcgen(props, scratch, extra)
    if out is None:
        print(log)
        for p in props:
            rp = write_replay(p, "vcgen", {"obligation": "vcgen/load", "reason": "vcgen failed to load or translate /repo", "output": log[-4000:]})
            print("VIOLATION property=%s replay=%s no-failing-input-found" % (p, rp))
            write_evidence(p, args.tier, seed, [], {}, [], time.time() - t_start, 1, out, gen_s)
        return 1
    obls = out["obligations"] or []
    exceptions0 = load_exceptions()
    def is_slow(o):
        e = exception_for(o["name"], exceptions0)
        return e is not None and e["kind"] == "slow"
    if not thorough:
        # obligations known to need more than the quick budget are proved in the thorough tier only
        slow_skipped = [o["name"] for o in obls if is_slow(o)]
        obls = [o for o in obls if not is_slow(o)]
    else:
        slow_skipped = []
    def is_excepted(o):
        e = exception_for(o["name"], exceptions0)
        return e is not None and e["kind"] in ("assumed", "unclaimed")
    # obligations that are not claimed are not sent to the solvers in the quick tier
    unsolved = set(o["name"] for o in obls if o["backend"] == "smt" and is_excepted(o) and not thorough)
    smt_obls = [o for o in obls if o["backend"] == "smt" and o["name"] not in unsolved]
    results = {}
    # one job per query: an obligation whose goal is a conjunction comes as several parts
    jobs = []
    for o in smt_obls:
        parts = o.get("parts") or [o["smt"]]
        for i, smt in enumerate(parts):
            jobs.append((o, i, smt, len(parts)))
    partial = {}
    with cf.ThreadPoolExecutor(max_workers=int(os.environ.get("VERIF_JOBS", "16"))) as ex:
        # obligations that are excepted (assumed/unclaimed) or recorded as known findings are expected
        # not to be provable: the thorough tier still tries them, but only within the quick budget
        known_names = set(k.get("obligation") for k in load_known() if k.get("status", "open") == "open")
        def budget(o):
            return 10 if (is_excepted(o) or o["name"] in known_names) else timeout
        futs = {ex.submit(chk.discharge1, o, smt, (".p%d" % (i + 1)) if n > 1 else "", scratch, budget(o), seed, thorough): (o, i) for o, i, smt, n in jobs}
        for fu in cf.as_completed(futs):
            o, i = futs[fu]
            partial.setdefault(o["name"], {})[i] = fu.result()
    # second chance: the few queries still undecided are raced again, alone on the machine, with
    # a longer limit and other seeds (instantiation-heavy proofs are timing- and seed-sensitive)
    retry = [(o, i, smt, n) for o, i, smt, n in jobs if not o.get("cover") and partial[o["name"]][i]["answer"] in ("unknown", "error")
             and not is_excepted(o) and o["name"] not in known_names]
    if 0 < len(retry) <= 24:
        with cf.ThreadPoolExecutor(max_workers=2) as ex:
            futs = {ex.submit(chk.discharge1, o, smt, (".p%d" % (i + 1)) if n > 1 else "", scratch, timeout * 3, seed + 10, thorough): (o, i) for o, i, smt, n in retry}
            for fu in cf.as_completed(futs):
                o, i = futs[fu]
                r2 = fu.result()
                if r2["answer"] in ("sat", "unsat"):
                    r2["time"] += partial[o["name"]][i]["time"]
                    r2["retried"] = True
                    partial[o["name"]][i] = r2
    for o in smt_obls:
        rs = partial[o["name"]]
        order = sorted(rs)
        tot = sum(rs[i]["time"] for i in order)
        pick = None
        for i in order:  # a refuted part decides; otherwise the first undecided one
            if rs[i]["answer"] == "sat":
                pick = (i, rs[i])
                break
        if pick is None:
            for i in order:
                if rs[i]["answer"] != "unsat":
                    pick = (i, rs[i])
                    break
        if pick is None:
            pick = (order[-1], rs[order[-1]])
        r = dict(pick[1])
        r["time"] = tot
        if len(order) > 1:
            r["parts"] = len(order)
            r["decisive_part"] = pick[0] + 1
            ans = {}
            for i in order:
                ans.update(rs[i]["answers"])
            r["contradiction"] = any(rs[i]["contradiction"] for i in order)
        results[o["name"]] = r
    if args.verbose:
        nq = len(jobs)
        nrace = sum(1 for name in partial for i in partial[name] if len(partial[name][i]["answers"]) > 1)
        print("queries: %d, raced (first attempt undecided): %d" % (nq, nrace))
        slow = sorted(results.items(), key=lambda kv: -kv[1]["time"])[:8]
        print("slowest:", ", ".join("%s %.1fs(%s)" % (k, v["time"], v["answer"]) for k, v in slow))
    known = load_known()
    baseline = load_baseline()
    exceptions = load_exceptions()
    rc = 0
    all_names = {o["name"] for o in obls}
    for p in props:
        pobls = [o for o in obls if p in (o.get("props") or [])]
        viol, kf_lines, samples = [], [], []
        discharged = 0
        total = 0
        by_backend = {}
        solver_time = 0.0
        undecided = []
        covers_undecided = []
        excepted = []
        carved = {o["name"][:-len("!carved")]: o for o in pobls if o["name"].endswith("!carved")}
        for o in pobls:
            name = o["name"]
            if name.endswith("!carved"):
                continue
            exc = exception_for(name, exceptions)
            if exc is not None and exc["kind"] == "slow":
                exc = None  # thorough tier: claimed like any other obligation
            if exc is not None:
                if name in results:
                    ok = results[name]["answer"] == ("sat" if o.get("cover") else "unsat")
                    excepted.append({"obligation": name, "kind": exc["kind"], "reason": exc["reason"], "holds_anyway": bool(ok)})
                else:
                    excepted.append({"obligation": name, "kind": exc["kind"], "reason": exc["reason"]})
                continue
            total += 1
            if o["backend"] == "static":
                ok = o.get("static") == "ok"
                by_backend["static"] = by_backend.get("static", 0) + 1
                if ok:
                    discharged += 1
                else:
                    viol.append((o, None, "static check failed: %s" % o.get("static")))
                continue
            r = results[name]
            solver_time += r["time"]
            by_backend[r["solver"]] = by_backend.get(r["solver"], 0) + 1
            want = "sat" if o.get("cover") else "unsat"
            if len(samples) < 12 and not o.get("cover"):
                samples.append({"obligation": name, "kind": o["kind"], "clause": o.get("clause", ""), "answer": r["answer"],
                                "solver": r["solver"], "time_s": round(r["time"], 3), "smt_bytes": r["size"]})
            if thorough and r["contradiction"]:
                viol.append((o, r, "solvers disagree: %s" % {k: v[0] for k, v in r["answers"].items()}))
                continue
            if r["answer"] == want:
                discharged += 1
                continue
            if o.get("cover") and r["answer"] in ("unknown", "error") and r["answer"] != "error":
                # a cover the solvers cannot decide proves nothing either way: not counted
                total -= 1
                covers_undecided.append(name)
                continue
            if o.get("cover") and any((x["name"] != name and x.get("fn") == o.get("fn") and not x.get("cover") and (
                    exception_for(x["name"], exceptions) is not None or
                    (x["backend"] == "smt" and x["name"] in results and results[x["name"]]["answer"] != "unsat") or
                    (x["backend"] == "static" and x.get("static") != "ok"))) for x in obls):
                # the path is cut off by an obligation of the same function that is not discharged
                # (its goal is assumed afterwards): that obligation is the finding, not this cover
                total -= 1
                covers_undecided.append(name)
                continue
            if o.get("cover"):
                # vacuity: a precondition / path that must be satisfiable is not
                viol.append((o, r, "vacuity guard failed (%s): contract contradictory or path unreachable" % r["answer"]))
                continue
            # known finding?
            # a finding is recorded once (under its main property) and recognised under every
            # property the obligation is tagged with
            kf = [k for k in known if k.get("obligation") == name and k.get("status", "open") == "open"]
            if kf:
                k = kf[0]
                co = carved.get(name)
                cr = results.get(name + "!carved")
                if k.get("whole_obligation"):
                    # the obligation is a labelled clause stating exactly the recorded defect: no carve-out twin
                    pass
                elif co is None or cr is None or cr["answer"] != "unsat":
                    viol.append((o, cr or r, "obligation fails outside the recorded known finding (carve-out %r does not cover it)" % k.get("carve_out")))
                    continue
                still, wout = replay.run_witness(k, chk.REPO, chk.GOENV, scratch)
                if still:
                    kf_lines.append("KNOWN-FINDING: property=%s %s -- %s" % (p, name, k.get("what", "")))
                    discharged += 1  # discharged under the recorded carve-out
                else:
                    viol.append((o, r, "known-finding witness no longer reproduces but the obligation still fails: %s" % wout[-500:]))
                continue
            if r["answer"] in ("unknown", "error"):
                undecided.append(name)
            viol.append((o, r, "refuted" if r["answer"] == "sat" else "undecided (%s)" % r["answer"]))
        # baseline: obligations that disappeared
        for bn in baseline.get(p, []):
            if bn not in all_names and not args.fn and bn not in slow_skipped:
                total += 1
                viol.append(({"name": bn, "kind": "baseline", "fn": bn.split("/")[0], "clause": "", "props": [p]}, None,
                             "obligation discharged on the unchanged tree no longer exists (contract binding lost?)"))
        for line in kf_lines:
            print(line)
        nviol = 0
        bounded_res = []
        if not args.fn:
            bounded_res = bounded.run_bounded(p, args.tier, seed, chk.REPO, chk.GOENV, scratch)
            for b in bounded_res:
                if b["ok"]:
                    if args.verbose:
                        print("bounded stand-in %s: ok (%d cases, %d operations, %.1fs) -- %s" % (b["name"], b["cases_run"], b["operations_run"], b["wall_s"], b["bound"]))
                    continue
                nviol += 1
                rp = write_replay(p, "bounded_" + b["name"], dict(b, obligation="bounded:" + b["name"], reason="bounded stand-in failed on the real code"))
                print("VIOLATION property=%s replay=%s" % (p, rp))
                if args.verbose:
                    print("    bounded:%s -- %s" % (b["name"], b.get("failure")))
        seen_fn = set()
        for o, r, why in viol:
            nviol += 1
            rp, confirmed = make_violation_replay(p, o, r, why, out, scratch)
            tail = "" if confirmed else " no-failing-input-found"
            print("VIOLATION property=%s replay=%s%s" % (p, rp, tail))
            if args.verbose:
                extra = ""
                if r is not None and r.get("decisive_part"):
                    extra = " [part %d of %d]" % (r["decisive_part"], r.get("parts", 0))
                print("   ", o["name"], "--", why + extra)
        if nviol:
            rc = 1
        fns = [f for f in out["functions"] if p in (f.get("props") or [])]
        write_evidence(p, args.tier, seed, pobls, {"total": total, "discharged": discharged, "by_backend": by_backend,
                       "solver_time": solver_time, "samples": samples, "undecided": undecided, "covers_undecided": covers_undecided, "excepted": excepted, "slow_skipped": [n for n in slow_skipped if any(n == o["name"] for o in out["obligations"] if p in (o.get("props") or []))], "kf": kf_lines,
                       "violations": [(o["name"], why) for o, r, why in viol] + [("bounded:" + b["name"], b.get("failure")) for b in bounded_res if not b["ok"]],
                       "bounded": bounded_res},
                       fns, time.time() - t_start, nviol, out, gen_s)
        print("property %s: %d obligations, %d discharged, %d violations, %d known findings (%.1fs)" % (
            p, total, discharged, nviol, len(kf_lines), time.time() - t_start))
    if args.update_baseline:
        bl = load_baseline()
        for p in props:
            bl[p] = sorted(o["name"] for o in obls if p in (o.get("props") or []) and not o["name"].endswith("!carved"))
        os.makedirs(os.path.join(VERIF, "baseline"), exist_ok=True)
        json.dump(bl, open(os.path.join(VERIF, "baseline", "obligations.json"), "w"), indent=1, sort_keys=True)
    return rc


def write_replay(prop, name, payload):
    d = os.path.join(VERIF, "replays", prop)
    os.makedirs(d, exist_ok=True)
    fn = re.sub(r"[^A-Za-z0-9_.#-]", "_", name) + ".json"
    path = os.path.join(d, fn)
    payload = dict(payload, property=prop)
    json.dump(payload, open(path, "w"), indent=1, default=str)
    return path


def make_violation_replay(prop, o, r, why, out, scratch):
    payload = {"obligation": o["name"], "kind": o.get("kind"), "function": o.get("fn"), "clause": o.get("clause"),
               "pos": o.get("pos"), "reason": why}
    confirmed = False
    if r is not None:
        payload["solver"] = r.get("solver")
        payload["solver_answer"] = r.get("answer")
        payload["solver_output"] = r.get("output", "")[:3000]
        payload["answers"] = {k: v[0] for k, v in r.get("answers", {}).items()}
        if r.get("answer") == "sat":
            model = chk.parse_model(r.get("output", ""))
            payload["model"] = model
            try:
                rep = replay.replay_model(o, model, chk.REPO, chk.GOENV, scratch)
            except Exception as e:  # replay is best effort; never mask the violation
                rep = {"confirmed": False, "error": repr(e)}
            payload["replay"] = rep
            confirmed = bool(rep.get("confirmed"))
    return write_replay(prop, o["name"], payload), confirmed


def write_evidence(prop, tier, seed, pobls, st, fns, wall, nviol, out, gen_s):
    # runs against a modified copy of the code (seeded changes, experiments) must not overwrite the
    # evidence of the real tree: they set VERIF_EVIDENCE_DIR
    evdir = os.environ.get("VERIF_EVIDENCE_DIR") or os.path.join(VERIF, "evidence")
    os.makedirs(evdir, exist_ok=True)
    assumptions = []
    notes = []
    trusted_fns = []
    assumed_used = set()
    for f in fns:
        if f.get("trusted"):
            trusted_fns.append("%s (trusted: %s)" % (f["fn"], f.get("trusted_why", "")))
        for a in f.get("assumed_used") or []:
            assumed_used.add(a)
        for n in f.get("notes") or []:
            notes.append("%s: %s" % (f["fn"], n))
    assumptions += ["assumed contract (not verified): " + a for a in sorted(assumed_used)]
    assumptions += ["trusted function: " + t for t in trusted_fns]
    assumptions += ["abstraction: " + n for n in notes[:60]]
    for x in st.get("excepted", []):
        assumptions.append("%s obligation %s: %s" % (x["kind"], x["obligation"], x["reason"]))
    assumptions += [
        "termination is proved only along calls between functions that declare a decreases measure (otherwise partial correctness; callee contracts are assumed at recursive calls)",
        "integers: arith int = mathematical Int with exact wrap per Go operation; arith bv = bit-vectors",
        "external (non-module) callees without an assumed contract: may write only through pointer/slice/callback arguments (reflect.Value.Set* may write any real memory); results unconstrained",
        "interface method calls without a contract: frame = union of the module implementations' mod-sets (host implementations assumed to respect it)",
    ]
    extra = {}
    mpath = os.path.join(VERIF, "lib", "prop_notes.json")
    if os.path.exists(mpath):
        pn = json.load(open(mpath)).get(prop, {})
        assumptions += pn.get("assumptions", [])
        extra = pn.get("coverage_extra", {})
    cov = {
        "obligations": st.get("total", 0),
        "discharged": st.get("discharged", 0),
        "checker_cmd": "./check --property %s --tier %s  (bin/vcgen -repo /repo -props %s | z3-new / z3 / cvc5)" % (prop, tier, prop),
        "trusted_base": TRUSTED_BASE,
        "samples": st.get("samples", []) or [{"note": "no SMT obligations generated"}],
        "functions_under_contract": [{"fn": f["fn"], "arith": f.get("arith"), "obligations": f.get("obligations"), "loops": f.get("loops"),
                                      "ssa_instrs": f.get("instrs"), "trusted": f.get("trusted", False)} for f in fns],
        "backend_histogram": st.get("by_backend", {}),
        "solver_time_s": round(st.get("solver_time", 0.0), 2),
        "vcgen_s": round(gen_s or 0.0, 2),
        "undecided": st.get("undecided", []),
        "covers_undecided_not_counted": st.get("covers_undecided", []),
        "not_claimed": st.get("excepted", []),
        "thorough_tier_only": st.get("slow_skipped", []),
        "known_findings_seen": st.get("kf", []),
        "violations": st.get("violations", []),
        "bounded_stand_ins": st.get("bounded", []),
        "explanation": "every obligation is an SMT query (path condition and negated goal) generated from go/ssa of /repo's working tree; "
                       "'discharged' counts unsat answers (sat for vacuity covers) plus static frame/binding checks",
    }
    cov.update(extra)
    ev = {"property_id": prop, "tier": tier, "seed": seed, "level": "proof", "coverage": cov,
          "assumptions": assumptions, "wall_s": round(wall, 2), "violations": nviol}
    json.dump(ev, open(os.path.join(evdir, prop + ".json"), "w"), indent=1, default=str)
