"""Bounded stand-ins: executions of the real code against an oracle, up to a stated bound.

They are reported separately from the proof obligations, labelled bounded, and never counted as
proved. A failure is a genuine failing input (it was produced by running /repo's code), so the
VIOLATION line carries no 'no-failing-input-found' suffix."""
import json, os, re, subprocess, time

VERIF = os.path.dirname(os.path.dirname(os.path.abspath(__file__)))


def config():
    p = os.path.join(VERIF, "bounded", "bounded.json")
    return json.load(open(p)) if os.path.exists(p) else {}


def run_bounded(prop, tier, seed, repo, goenv, scratch):
    out = []
    for b in config().get(prop, []):
        t0 = time.time()
        harness = os.path.join(VERIF, "bounded", b["harness"])
        target = os.path.join(repo, b["pkg_dir"], "zz_verif_bounded_test.go")
        ov = os.path.join(scratch, "bounded_overlay_%s.json" % b["name"])
        json.dump({"Replace": {target: harness}}, open(ov, "w"))
        env = dict(goenv)
        env.update(b.get("env", {}).get(tier, {}))
        env["VERIF_SEED"] = str(seed)
        to = b.get("timeout_s", {}).get(tier, 600)
        cmd = "ulimit -v 16000000; go test -overlay %s -vet=off -count=1 -timeout %ds -v -run '%s$' ./%s" % (ov, to, b["test"], b["pkg_dir"])
        try:
            r = subprocess.run(["bash", "-c", cmd], cwd=repo, env=env, stdout=subprocess.PIPE, stderr=subprocess.STDOUT, text=True, timeout=to + 120)
            txt, rc = r.stdout, r.returncode
        except subprocess.TimeoutExpired:
            txt, rc = "BOUNDED-TIMEOUT", 2
        oks = [l for l in txt.splitlines() if l.startswith("BOUNDED-OK")]
        fails = [l for l in txt.splitlines() if l.startswith("BOUNDED-FAIL")]
        seqs = [l for l in txt.splitlines() if l.startswith("BOUNDED-SEQ")]
        evals = sum(int(x) for l in oks for x in re.findall(r"(?:sequences|histories)=(\d+)", l))
        nops = sum(int(x) for l in oks for x in re.findall(r"operations=(\d+)", l))
        ok = rc == 0 and not fails and len(oks) > 0
        res = {"name": b["name"], "stands_in_for": b["stands_in_for"], "bound": b["bound"].get(tier, ""), "label": "bounded (not a proof)",
               "ok": ok, "cases_run": evals, "operations_run": nops, "result_lines": oks, "wall_s": round(time.time() - t0, 1),
               "cmd": "go test -overlay <harness %s as %s> -run %s ./%s" % (b["harness"], os.path.basename(target), b["test"], b["pkg_dir"])}
        if not ok:
            res["failure"] = fails[0] if fails else ("harness did not complete (exit %d)" % rc)
            res["failing_sequence"] = seqs[0][len("BOUNDED-SEQ "):] if seqs else None
            res["transcript_tail"] = txt[-3000:]
        out.append(res)
    return out
