package main

import (
	"fmt"
	"go/token"
	"go/types"
	"sort"
	"strings"

	"golang.org/x/tools/go/ssa"
)

// Static (non-SMT) obligation kinds declared at package level:
//
//   //@ reads_not [C03] hash : hashString, seed, hash/maphash.*
//       the named function must not reach (through static calls, closures and interface calls
//       resolved over the module's types) any listed function, nor load any listed global.
//
//   //@ readafter [C05] Funcode.lnt : sync.Once.Do except Funcode.decodeLNT
//       every read of the field, in any function of the module except the listed ones, is
//       dominated by a call of the named function in the same function.
//
// Both are closures over the SSA call graph / dominator tree: sound over-approximations
// (any syntactic path counts).

func (g *Global) staticObligations(want map[string]bool) []*Obligation {
	var out []*Obligation
	for _, d := range g.cs.Decls {
		if len(want) > 0 && !intersects(d.Props, want) {
			continue
		}
		switch d.Kind {
		case "reads_not":
			out = append(out, g.readsNot(d)...)
		case "readafter":
			out = append(out, g.readAfter(d)...)
		case "covers":
			out = append(out, g.coversFields(d)...)
		case "no_callers":
			out = append(out, g.noCallers(d)...)
		case "delegates":
			out = append(out, g.delegates(d)...)
		case "globals_readonly":
			out = append(out, g.globalsReadonly(d)...)
		}
	}
	return out
}

func matchName(pats []string, full, short string) bool {
	for _, p := range pats {
		p = strings.TrimSpace(p)
		if p == "" {
			continue
		}
		if strings.HasSuffix(p, ".*") {
			if strings.HasPrefix(full, strings.TrimSuffix(p, "*")) {
				return true
			}
			continue
		}
		if p == full || p == short {
			return true
		}
	}
	return false
}

func (g *Global) readsNot(d PkgDecl) []*Obligation {
	i := strings.Index(d.Text, " : ")
	if i < 0 {
		return []*Obligation{{Name: "reads_not/" + d.Pos, Kind: "contract-binding", Props: d.Props, Backend: "static", Static: "syntax: reads_not fn : names", Pos: d.Pos}}
	}
	fnName := strings.TrimSpace(d.Text[:i])
	pats := strings.Split(d.Text[i+3:], ",")
	key := d.Pkg + "." + fnName
	root := g.keyFunc[key]
	name := shortFnName(key) + "/reads_not"
	if root == nil {
		return []*Obligation{{Name: name, Fn: shortFnName(key), Kind: "contract-binding", Props: d.Props, Backend: "static", Static: "function not found", Pos: d.Pos}}
	}
	// BFS with parent pointers for a readable path
	parent := map[*ssa.Function]*ssa.Function{root: nil}
	queue := []*ssa.Function{root}
	bad := ""
	shortOf := func(fn *ssa.Function) string {
		k := g.funcKey[fn]
		if k == "" {
			k = fn.String()
		}
		if j := strings.LastIndex(k, "/"); j >= 0 {
			k = k[j+1:]
		}
		if strings.HasPrefix(k, "starlark.") {
			k = strings.TrimPrefix(k, "starlark.")
		}
		return k
	}
	pathTo := func(fn *ssa.Function) string {
		var p []string
		for f := fn; f != nil; f = parent[f] {
			p = append([]string{shortOf(f)}, p...)
		}
		return strings.Join(p, " -> ")
	}
	for len(queue) > 0 && bad == "" {
		fn := queue[0]
		queue = queue[1:]
		var callees []*ssa.Function
		for _, b := range fn.Blocks {
			for _, in := range b.Instrs {
				switch in := in.(type) {
				case *ssa.UnOp:
					if in.Op == token.MUL {
						if gl, ok := in.X.(*ssa.Global); ok {
							full := gl.Pkg.Pkg.Path() + "." + gl.Name()
							if matchName(pats, full, gl.Name()) {
								bad = pathTo(fn) + " reads " + gl.Name()
							}
						}
					}
				case ssa.CallInstruction:
					cc := in.Common()
					if cc.IsInvoke() {
						callees = append(callees, g.implementationsOf(cc.Value.Type(), cc.Method)...)
						continue
					}
					switch v := cc.Value.(type) {
					case *ssa.Function:
						callees = append(callees, v)
					case *ssa.MakeClosure:
						callees = append(callees, v.Fn.(*ssa.Function))
					}
				case *ssa.MakeClosure:
					callees = append(callees, in.Fn.(*ssa.Function))
				}
			}
		}
		for _, c := range callees {
			if c == nil {
				continue
			}
			full := funcKeyOf(c)
			if full == "" {
				full = c.String()
			}
			short := c.Name()
			if matchName(pats, full, short) {
				bad = pathTo(fn) + " -> " + short
				break
			}
			if _, seen := parent[c]; seen {
				continue
			}
			if !inModulePkg(pkgOf(c)) {
				continue // external leaf (not in the forbidden list)
			}
			parent[c] = fn
			queue = append(queue, c)
		}
	}
	res := "ok"
	if bad != "" {
		res = "forbidden dependency: " + bad
	}
	return []*Obligation{{Name: name, Fn: shortFnName(key), Kind: "reads_not", Props: d.Props, Clause: d.Text, Backend: "static", Static: res, Pos: d.Pos}}
}

func (g *Global) readAfter(d PkgDecl) []*Obligation {
	i := strings.Index(d.Text, " : ")
	if i < 0 {
		return nil
	}
	target := strings.TrimSpace(d.Text[:i]) // Type.field
	rest := d.Text[i+3:]
	except := ""
	if j := strings.Index(rest, " except "); j >= 0 {
		except = rest[j+8:]
		rest = rest[:j]
	}
	guard := strings.TrimSpace(rest) // e.g. sync.Once.Do
	excepts := strings.Split(except, ",")
	dot := strings.Index(target, ".")
	tname, fname := target[:dot], target[dot+1:]
	var fns []*ssa.Function
	for fn := range g.allFuncs {
		if fn.Blocks != nil && inModulePkg(pkgOf(fn)) {
			fns = append(fns, fn)
		}
	}
	sort.Slice(fns, func(a, b int) bool { return fns[a].String() < fns[b].String() })
	var out []*Obligation
	for _, fn := range fns {
		key := g.funcKey[fn]
		if key == "" {
			key = fn.String()
		}
		skip := false
		for _, e := range excepts {
			e = strings.TrimSpace(e)
			if e != "" && strings.HasSuffix(key, "."+e) {
				skip = true
			}
		}
		if skip {
			continue
		}
		// guard calls
		var guards []ssa.Instruction
		var reads []ssa.Instruction
		for _, b := range fn.Blocks {
			for _, in := range b.Instrs {
				if ci, ok := in.(ssa.CallInstruction); ok {
					if f, ok := ci.Common().Value.(*ssa.Function); ok {
						if k := funcKeyOf(f); k == guard || strings.HasSuffix(k, "/"+guard) {
							guards = append(guards, in)
						}
					}
				}
				if fa, ok := in.(*ssa.FieldAddr); ok {
					st := fa.X.Type().Underlying().(*types.Pointer).Elem()
					if n, ok := st.(*types.Named); ok && n.Obj().Pkg() != nil && n.Obj().Pkg().Path() == d.Pkg && n.Obj().Name() == tname {
						if st.Underlying().(*types.Struct).Field(fa.Field).Name() == fname {
							// a read: some referrer loads through it
							for _, r := range *fa.Referrers() {
								if u, ok := r.(*ssa.UnOp); ok && u.Op == token.MUL {
									reads = append(reads, u)
								}
							}
						}
					}
				}
			}
		}
		if len(reads) == 0 {
			continue
		}
		res := "ok"
		for _, rd := range reads {
			dominated := false
			for _, gd := range guards {
				if gd.Block() == rd.Block() {
					gi, ri := -1, -1
					for k, in := range gd.Block().Instrs {
						if in == gd {
							gi = k
						}
						if in == rd {
							ri = k
						}
					}
					if gi >= 0 && gi < ri {
						dominated = true
					}
				} else if gd.Block().Dominates(rd.Block()) {
					dominated = true
				}
			}
			if !dominated {
				res = fmt.Sprintf("read of %s at %s is not preceded by a call of %s on every path", target, g.prog.Fset.Position(rd.Pos()), guard)
			}
		}
		out = append(out, &Obligation{Name: shortFnName(key) + "/readafter:" + target, Fn: shortFnName(key), Kind: "readafter", Props: d.Props, Clause: d.Text, Backend: "static", Static: res, Pos: d.Pos})
	}
	return out
}

// covers [C17] Funcode : layFuncode layHead layTail except Prog lntOnce lnt
//
// Every field of the struct is mentioned (as ".Field") in the body of one of the named spec
// functions, or listed after "except". A field added to the struct without extending the
// specification it is supposed to be covered by (a serialization layout, a copy, an equality)
// fails this obligation.
func (g *Global) coversFields(d PkgDecl) []*Obligation {
	i := strings.Index(d.Text, " : ")
	if i < 0 {
		return nil
	}
	tname := strings.TrimSpace(d.Text[:i])
	rest := strings.Fields(d.Text[i+3:])
	var fns, except []string
	seenExcept := false
	for _, w := range rest {
		if w == "except" {
			seenExcept = true
			continue
		}
		w = strings.Trim(w, ",")
		if seenExcept {
			except = append(except, w)
		} else {
			fns = append(fns, w)
		}
	}
	name := d.Pkg[strings.LastIndex(d.Pkg, "/")+1:] + "." + tname + "/covers"
	mk := func(static string) *Obligation {
		return &Obligation{Name: name, Fn: tname, Kind: "covers", Props: d.Props, Backend: "static", Static: static, Pos: d.Pos,
			Clause: "every field of " + tname + " is specified by " + strings.Join(fns, ", ")}
	}
	var stru *types.Struct
	for _, p := range g.findPkgs(d.Pkg[strings.LastIndex(d.Pkg, "/")+1:]) {
		if p.Pkg.Path() != d.Pkg {
			continue
		}
		if o := p.Pkg.Scope().Lookup(tname); o != nil {
			if st, ok := o.Type().Underlying().(*types.Struct); ok {
				stru = st
			}
		}
	}
	if stru == nil {
		return []*Obligation{mk("covers: no struct type " + tname)}
	}
	text := ""
	for _, f := range fns {
		sf := g.cs.SpecFns[f]
		if sf == nil {
			return []*Obligation{mk("covers: unknown spec function " + f)}
		}
		text += " " + sf.Body
	}
	var missing []string
	for k := 0; k < stru.NumFields(); k++ {
		fn := stru.Field(k).Name()
		skip := false
		for _, e := range except {
			if e == fn {
				skip = true
			}
		}
		if skip {
			continue
		}
		found := false
		for idx := 0; idx < len(text); {
			j := strings.Index(text[idx:], "."+fn)
			if j < 0 {
				break
			}
			end := idx + j + 1 + len(fn)
			if end >= len(text) || !(text[end] == '_' || text[end] >= 'a' && text[end] <= 'z' || text[end] >= 'A' && text[end] <= 'Z' || text[end] >= '0' && text[end] <= '9') {
				found = true
				break
			}
			idx = end
		}
		if !found {
			missing = append(missing, fn)
		}
	}
	if len(missing) > 0 {
		return []*Obligation{mk("fields not covered by the specification: " + strings.Join(missing, ", "))}
	}
	return []*Obligation{mk("ok")}
}

// globals_readonly [C03,C05] except a b c
//
// No function of the package (package initialisation aside) writes a package-level variable:
// neither by a store whose address is rooted at the variable, nor by handing a pointer to or a
// slice of it to a callee. Such a variable is state shared by all threads and all executions
// (a scratch buffer, a cache): what one execution leaves there another one reads.
func (g *Global) globalsReadonly(d PkgDecl) []*Obligation {
	except := map[string]bool{}
	fs := strings.Fields(d.Text)
	for i, w := range fs {
		if w == "except" {
			for _, e := range fs[i+1:] {
				except[strings.Trim(e, ",")] = true
			}
		}
	}
	short := d.Pkg[strings.LastIndex(d.Pkg, "/")+1:]
	var bad []string
	seen := map[string]bool{}
	rootGlobal := func(v ssa.Value) *ssa.Global {
		for depth := 0; depth < 16; depth++ {
			switch x := v.(type) {
			case *ssa.Global:
				return x
			case *ssa.FieldAddr:
				v = x.X
			case *ssa.IndexAddr:
				v = x.X
			case *ssa.Slice:
				v = x.X
			case *ssa.ChangeType:
				v = x.X
			case *ssa.Convert:
				v = x.X
			default:
				return nil
			}
		}
		return nil
	}
	var fns []*ssa.Function
	for fn := range g.allFuncs {
		if fn.Pkg == nil || fn.Pkg.Pkg.Path() != d.Pkg || fn.Blocks == nil {
			continue
		}
		if fn.Name() == "init" || strings.HasPrefix(fn.Name(), "init#") || fn.Synthetic != "" {
			continue
		}
		fns = append(fns, fn)
	}
	sort.Slice(fns, func(i, j int) bool { return fns[i].String() < fns[j].String() })
	note := func(gl *ssa.Global, fn *ssa.Function, how string) {
		if gl == nil || gl.Pkg == nil || gl.Pkg.Pkg.Path() != d.Pkg || except[gl.Name()] {
			return
		}
		k := gl.Name() + " " + how + " in " + fn.Name()
		if !seen[k] {
			seen[k] = true
			bad = append(bad, k)
		}
	}
	for _, fn := range fns {
		for _, b := range fn.Blocks {
			for _, in := range b.Instrs {
				switch in := in.(type) {
				case *ssa.Store:
					note(rootGlobal(in.Addr), fn, "stored to")
				case ssa.CallInstruction:
					for _, a := range in.Common().Args {
						switch a.Type().Underlying().(type) {
						case *types.Pointer, *types.Slice:
							if gl := rootGlobal(a); gl != nil {
								if _, isSlice := a.(*ssa.Slice); isSlice {
									note(gl, fn, "sliced and passed to a callee")
								} else if _, isG := a.(*ssa.Global); !isG {
									note(gl, fn, "address passed to a callee")
								} else if _, arr := gl.Type().Underlying().(*types.Pointer).Elem().Underlying().(*types.Array); arr {
									note(gl, fn, "address passed to a callee")
								}
							}
						}
					}
				}
			}
		}
	}
	st := "ok"
	if len(bad) > 0 {
		sort.Strings(bad)
		st = "package-level state written at run time: " + strings.Join(bad, "; ")
	}
	return []*Obligation{{Name: short + "/globals_readonly", Fn: short, Kind: "globals_readonly", Props: d.Props, Backend: "static", Static: st, Pos: d.Pos,
		Clause: "no function of " + d.Pkg + " writes a package-level variable"}}
}

// delegates [C10] newUnaryBuiltin newBinaryBuiltin : math except degrees radians
//
// Every call of the named wrapper constructors in the package passes a function of the named
// (standard-library) package as its function argument, except the listed local ones: the
// arithmetic exposed to Starlark is the library's, whose correctness is an assumption, and not
// a re-implementation inside the module.
func (g *Global) delegates(d PkgDecl) []*Obligation {
	i := strings.Index(d.Text, " : ")
	if i < 0 {
		return nil
	}
	wrappers := map[string]bool{}
	for _, w := range strings.Fields(d.Text[:i]) {
		wrappers[strings.Trim(w, ",")] = true
	}
	rest := strings.Fields(d.Text[i+3:])
	target := ""
	except := map[string]bool{}
	seenExcept := false
	for _, w := range rest {
		w = strings.Trim(w, ",")
		if w == "except" {
			seenExcept = true
		} else if seenExcept {
			except[w] = true
		} else {
			target = w
		}
	}
	short := d.Pkg[strings.LastIndex(d.Pkg, "/")+1:]
	var bad []string
	n := 0
	for fn := range g.allFuncs {
		if fn.Pkg == nil || fn.Pkg.Pkg.Path() != d.Pkg || fn.Blocks == nil {
			continue
		}
		for _, b := range fn.Blocks {
			for _, in := range b.Instrs {
				ci, ok := in.(ssa.CallInstruction)
				if !ok {
					continue
				}
				callee, ok := ci.Common().Value.(*ssa.Function)
				if !ok || !wrappers[callee.Name()] || callee.Pkg == nil || callee.Pkg.Pkg.Path() != d.Pkg {
					continue
				}
				n++
				for _, a := range ci.Common().Args {
					if _, isSig := a.Type().Underlying().(*types.Signature); !isSig {
						continue
					}
					what := "a computed function value"
					switch f := a.(type) {
					case *ssa.Function:
						if f.Pkg != nil && f.Pkg.Pkg.Path() == target {
							what = ""
						} else if except[f.Name()] {
							what = ""
						} else {
							what = f.String()
						}
					case *ssa.MakeClosure:
						what = "a closure"
					}
					if what != "" {
						bad = append(bad, callee.Name()+" is given "+what)
					}
				}
			}
		}
	}
	st := "ok"
	if n == 0 {
		st = "no call of " + strings.TrimSpace(d.Text[:i]) + " found (contract binding lost)"
	}
	if len(bad) > 0 {
		sort.Strings(bad)
		st = "not delegated to package " + target + ": " + strings.Join(bad, "; ")
	}
	return []*Obligation{{Name: short + "/delegates", Fn: short, Kind: "delegates", Props: d.Props, Backend: "static", Static: st, Pos: d.Pos,
		Clause: "the functions wrapped by " + strings.TrimSpace(d.Text[:i]) + " are those of package " + target}}
}

// no_callers [C07] Thread.Uncancel
//
// No function of the module calls the named function or method: it is an operation reserved for
// the host application (a program or a library routine must not be able to trigger it).
func (g *Global) noCallers(d PkgDecl) []*Obligation {
	target := strings.TrimSpace(d.Text)
	short := d.Pkg[strings.LastIndex(d.Pkg, "/")+1:]
	var bad []string
	found := false
	for fn := range g.allFuncs {
		if fn.Pkg != nil && fn.Pkg.Pkg.Path() == d.Pkg && shortFnName(g.funcKey[fn]) == short+"."+target {
			found = true
		}
		if fn.Blocks == nil || !inModulePkg(pkgOf(fn)) {
			continue
		}
		for _, b := range fn.Blocks {
			for _, in := range b.Instrs {
				ci, ok := in.(ssa.CallInstruction)
				if !ok {
					continue
				}
				if callee, ok := ci.Common().Value.(*ssa.Function); ok && callee.Pkg != nil && callee.Pkg.Pkg.Path() == d.Pkg &&
					shortFnName(g.funcKey[callee]) == short+"."+target {
					bad = append(bad, shortFnName(g.funcKey[fn]))
				}
			}
		}
	}
	st := "ok"
	if !found {
		st = "no function " + target + " in " + d.Pkg + " (contract binding lost)"
	}
	if len(bad) > 0 {
		sort.Strings(bad)
		st = target + " is called inside the module by: " + strings.Join(bad, ", ")
	}
	return []*Obligation{{Name: short + "." + target + "/no_callers", Fn: short + "." + target, Kind: "no_callers", Props: d.Props, Backend: "static", Static: st, Pos: d.Pos,
		Clause: target + " is never called from inside the module"}}
}
