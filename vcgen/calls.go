package main

import (
	"fmt"
	"go/token"
	"go/types"
	"sort"
	"strings"

	"golang.org/x/tools/go/ssa"
)

type calleeInfo struct {
	key      string
	fn       *ssa.Function // nil for interface methods / dynamic
	con      *FuncContract
	sig      *types.Signature
	names    []string // parameter names incl. receiver first (if any)
	ptypes   []types.Type
	dynamic  bool
	bindings []ssa.Value
	cc       *ssa.CallCommon
}

func (c *fnCtx) resolveCallee(cc *ssa.CallCommon) calleeInfo {
	var ci calleeInfo
	ci.sig = cc.Signature()
	ci.cc = cc
	if cc.IsInvoke() {
		ci.key, ci.con = c.g.ifaceContract(cc.Value.Type(), cc.Method)
		ci.names = []string{"self"}
		ci.ptypes = []types.Type{cc.Value.Type()}
		ps := ci.sig.Params()
		for i := 0; i < ps.Len(); i++ {
			n := ps.At(i).Name()
			if n == "" || n == "_" {
				n = fmt.Sprintf("arg%d", i)
			}
			ci.names = append(ci.names, n)
			ci.ptypes = append(ci.ptypes, ps.At(i).Type())
		}
		return ci
	}
	var fn *ssa.Function
	switch v := cc.Value.(type) {
	case *ssa.Function:
		fn = v
	case *ssa.MakeClosure:
		fn = v.Fn.(*ssa.Function)
		ci.bindings = v.Bindings
	}
	if fn == nil {
		ci.dynamic = true
		// a call through a function-valued struct field (a host callback) may have an assumed
		// contract under the key <pkg>.<Type>.<field>
		if key, con := c.g.fieldFuncContract(cc.Value); con != nil {
			ci.key, ci.con, ci.dynamic = key, con, false
			ps := ci.sig.Params()
			for i := 0; i < ps.Len(); i++ {
				n := ps.At(i).Name()
				if n == "" || n == "_" {
					n = fmt.Sprintf("arg%d", i)
				}
				ci.names = append(ci.names, n)
				ci.ptypes = append(ci.ptypes, ps.At(i).Type())
			}
		}
		return ci
	}
	ci.fn = fn
	ci.key = c.g.funcKey[fn]
	if ci.key == "" && fn.Origin() != nil {
		ci.key = c.g.funcKey[fn.Origin()]
		if ci.key == "" {
			ci.key = funcKeyOf(fn.Origin())
		}
	}
	ci.con = c.g.cs.Funcs[ci.key]
	if ci.con == nil {
		ci.con = c.g.inheritedContract(fn)
	}
	if len(fn.Params) > 0 || fn.Blocks != nil {
		for _, p := range fn.Params {
			ci.names = append(ci.names, p.Name())
			ci.ptypes = append(ci.ptypes, p.Type())
		}
	} else {
		if r := ci.sig.Recv(); r != nil {
			ci.names = append(ci.names, r.Name())
			ci.ptypes = append(ci.ptypes, r.Type())
		}
		ps := ci.sig.Params()
		for i := 0; i < ps.Len(); i++ {
			ci.names = append(ci.names, ps.At(i).Name())
			ci.ptypes = append(ci.ptypes, ps.At(i).Type())
		}
	}
	return ci
}

func (c *fnCtx) execCall(st *State, in ssa.Instruction, cc *ssa.CallCommon, res ssa.Value) {
	// "callback f preserves e": evaluate e before and after a call of the parameter f
	type kept struct{ text, pre string }
	var keeps []kept
	if c.con != nil && len(c.con.Callbacks) > 0 {
		cbName := ""
		if p, ok := cc.Value.(*ssa.Parameter); ok {
			cbName = p.Name()
		} else if cc.IsInvoke() {
			cbName = cc.Method.Name() // "callback M preserves e" also covers calls of the interface method M
		}
		if cbName != "" {
			for _, cl := range c.con.Callbacks {
				fs := strings.SplitN(cl.Text, " preserves ", 2)
				if len(fs) != 2 || strings.TrimSpace(fs[0]) != cbName {
					continue
				}
				env := c.newEnvAt(st, in.Block())
				env.atEnd, env.upTo = true, in
				v, err := env.evalText(strings.TrimSpace(fs[1]))
				if err != nil {
					c.abort("%s: callback: %v", cl.Pos, err)
				}
				keeps = append(keeps, kept{strings.TrimSpace(fs[1]), c.nameVal(v, "cbpre").S})
			}
		}
	}
	c.execCall1(st, in, cc, res)
	for _, k := range keeps {
		env := c.newEnvAt(st, in.Block())
		env.atEnd, env.upTo = true, in
		v, err := env.evalText(k.text)
		if err == nil {
			c.assume(st, sEq(v.S, k.pre))
			c.assumedUsed["callback parameter preserves "+k.text+" (assumed of the caller-supplied function)"] = true
		}
	}
	c.panicExit(st, in, cc)
}

// panicExit: a call of a function value (a callback such as a push iterator's yield) may panic.
// The `onpanic` clauses of the enclosing contract must then hold once the deferred calls
// registered so far have run -- this is what "a panic leaves the lock released" means.
func (c *fnCtx) panicExit(st *State, in ssa.Instruction, cc *ssa.CallCommon) {
	if c.con == nil || len(c.con.OnPanic) == 0 || c.inPanicExit {
		return
	}
	if _, isB := cc.Value.(*ssa.Builtin); isB {
		return
	}
	if cc.IsInvoke() {
		// an interface method call counts if a callback clause names the method
		named := false
		for _, cl := range c.con.Callbacks {
			if strings.HasPrefix(cl.Text, cc.Method.Name()+" preserves ") {
				named = true
			}
		}
		if !named {
			return
		}
	} else {
		switch cc.Value.(type) {
		case *ssa.Function, *ssa.MakeClosure:
			return // only calls through function values
		}
	}
	if _, isDefer := in.(*ssa.Defer); isDefer {
		return
	}
	c.inPanicExit = true
	defer func() { c.inPanicExit = false }()
	ps := st.clone()
	ps.defers = append([]deferred(nil), st.defers...)
	c.runDefers(ps, in.Pos())
	for _, cl := range c.con.OnPanic {
		env := c.newEnvAt(ps, in.Block())
		env.atEnd, env.upTo = true, in
		t, err := env.evalBool(cl.Text)
		if err != nil {
			c.abort("%s: onpanic: %v", cl.Pos, err)
		}
		kind := "panic-exit"
		if cl.Label != "" {
			kind += ":" + cl.Label
		}
		o := &Obligation{Name: c.oblName(kind), Fn: c.fnName, Kind: "panic-exit", Props: c.propsFor(cl.Props), Clause: cl.Text,
			Pos: c.posStr(in.Pos()), Backend: "smt", declLen: c.sb.Len(), cur: ps.cur, goal: t}
		c.obls = append(c.obls, o)
	}
}

func (c *fnCtx) execCall1(st *State, in ssa.Instruction, cc *ssa.CallCommon, res ssa.Value) {
	setRes := func(v SymVal) {
		if res != nil {
			c.set(res, v)
		}
	}
	c.protectCall(st, cc, in.Pos())
	if b, ok := cc.Value.(*ssa.Builtin); ok {
		setRes(c.execBuiltin(st, b, cc, in))
		return
	}
	ci := c.resolveCallee(cc)
	var args []SymVal
	if cc.IsInvoke() {
		recv := c.val(st, cc.Value)
		if c.checkPanics {
			if recv.K == KIface && !strings.HasPrefix(recv.S, "(mkI ") {
				c.oblige(st, "nilderef", sNot(sEq(recv.S, "nilI")), "interface receiver is not nil", c.safetyProps(), in.Pos())
			}
		} else if recv.K == KIface {
			c.assume(st, sNot(sEq(recv.S, "nilI")))
		}
		args = append(args, recv)
	}
	for i, a := range cc.Args {
		v := c.val(st, a)
		var pt types.Type
		off := 0
		if cc.IsInvoke() {
			off = 1
		}
		if i+off < len(ci.ptypes) {
			pt = ci.ptypes[i+off]
		} else {
			pt = a.Type()
		}
		args = append(args, c.coerceNil(v, pt))
	}
	var rt types.Type = ci.sig.Results()
	if ci.sig.Results().Len() == 1 {
		rt = ci.sig.Results().At(0).Type()
	}
	// method call through a nil pointer receiver is legal in Go; field access inside will trap.
	if ci.con != nil {
		setRes(c.applyContract(st, ci, args, rt, in.Pos()))
		return
	}
	// no contract: frame from the mod-set analysis
	c.unknownCall(st, ci, cc, in.Pos())
	if ci.sig.Results().Len() == 0 {
		return
	}
	setRes(c.freshVal(st, rt, "call_"+calleeShort(ci)))
}

func calleeShort(ci calleeInfo) string {
	k := ci.key
	if i := strings.LastIndex(k, "/"); i >= 0 {
		k = k[i+1:]
	}
	if k == "" {
		k = "dyn"
	}
	return k
}

func (c *fnCtx) unknownCall(st *State, ci calleeInfo, cc *ssa.CallCommon, pos token.Pos) {
	mods, all := c.callMods(cc)
	if all {
		c.note("call to %s at %s havocs the whole heap (no contract, no frame)", calleeShort(ci), c.posStr(pos))
		c.havocAll(st)
		return
	}
	for _, m := range mods {
		c.havocComp(st, m)
	}
	c.bumpTop(st)
	if c.checkPanics && !c.calleeNoPanic(ci) {
		// a callee that may panic does not make *this* function panic-free; recorded as a note,
		// since panic-freedom of callees is their own obligation.
	}
}

func (c *fnCtx) calleeNoPanic(ci calleeInfo) bool {
	return ci.con != nil && ci.con.NoPanic
}

// callMods returns the components a call may modify (static approximation).
func (c *fnCtx) callMods(cc *ssa.CallCommon) (mods []string, all bool) {
	if _, ok := cc.Value.(*ssa.Builtin); ok {
		b := cc.Value.(*ssa.Builtin)
		switch b.Name() {
		case "append", "copy":
			if len(cc.Args) > 0 {
				if et := elemType(cc.Args[0].Type()); et != nil {
					for _, l := range c.leafLocs("nil", et) {
						mods = append(mods, l.comp)
					}
				}
			}
		case "clear":
			if len(cc.Args) > 0 {
				if _, isSl := cc.Args[0].Type().Underlying().(*types.Slice); isSl {
					for _, l := range c.leafLocs("nil", elemType(cc.Args[0].Type())) {
						mods = append(mods, l.comp)
					}
				}
			}
		}
		return mods, false
	}
	ci := c.resolveCallee(cc)
	if ci.con != nil && ci.con.HasMod {
		if ci.con.ModAll {
			return nil, true
		}
		mods = append(c.staticModComps(ci), ci.con.GhostComps...)
		if ci.con.ModCallbacks {
			ms := c.g.externalCallMods(c.fn, cc)
			if ms.all {
				return nil, true
			}
			for m := range ms.comps {
				mods = append(mods, m)
			}
			sort.Strings(mods)
		}
		return mods, false
	}
	ms := c.g.modSetOfCall(c.fn, cc)
	if ms.all {
		return nil, true
	}
	for m := range ms.comps {
		mods = append(mods, m)
	}
	sort.Strings(mods)
	return mods, false
}

func (c *fnCtx) callGhostMods(cc *ssa.CallCommon) []string {
	if _, ok := cc.Value.(*ssa.Builtin); ok {
		return nil
	}
	ci := c.resolveCallee(cc)
	var out []string
	if ci.con != nil {
		for _, m := range ci.con.Modifies {
			if strings.HasPrefix(m, "g_") {
				out = append(out, m)
			}
		}
		out = append(out, ci.con.GhostMods...)
		if ci.con.HasMod {
			return out
		}
	}
	// ghost effects reached through callees without a (complete) contract
	ms := c.g.modSetOfCall(c.fn, cc)
	for m := range ms.comps {
		if strings.HasPrefix(m, "$g:") {
			out = append(out, m[3:])
		}
	}
	sort.Strings(out)
	return out
}

// staticModComps maps a contract's modifies list to component names.
func (c *fnCtx) staticModComps(ci calleeInfo) []string {
	set := map[string]bool{}
	for _, m := range ci.con.Modifies {
		for _, comp := range c.modItemComps(ci, m) {
			set[comp] = true
		}
	}
	var out []string
	for k := range set {
		out = append(out, k)
	}
	sort.Strings(out)
	return out
}

// modItemComps resolves one modifies item ("p.f", "p.f[*]", "Type.f", "$mem:T") statically.
func (c *fnCtx) modItemComps(ci calleeInfo, item string) []string {
	if strings.HasPrefix(item, "g_") {
		// ghost variables named in a modifies clause (g_open) are balanced by every callee that
		// has no contract of its own (that is the callee's own obligation); only variables
		// declared with ghostmod propagate through the mod-set analysis
		return nil
	}
	if strings.HasPrefix(item, "$mem:") || strings.HasPrefix(item, "$ghost:") {
		if strings.HasPrefix(item, "$ghost:") {
			if ci.con != nil {
				item = c.g.expandGhostComp(ci.con.Pkg, item)
			}
			if _, known := c.g.compKT[item]; !known {
				c.g.compKT[item] = compKT{KBool, nil} // literal ghost components are Bool-valued sets
			}
		}
		return []string{item}
	}
	if strings.HasPrefix(item, "*") {
		for i, n := range ci.names {
			if n == item[1:] && i < len(ci.ptypes) {
				if pt, ok := ci.ptypes[i].Underlying().(*types.Pointer); ok {
					var out []string
					for _, l := range c.leafLocs("nil", pt.Elem()) {
						out = append(out, l.comp)
					}
					return out
				}
			}
		}
		c.note("modifies item %q not resolved", item)
		return nil
	}
	elems := false
	if strings.HasSuffix(item, "[*]") {
		elems = true
		item = strings.TrimSuffix(item, "[*]")
	}
	parts := strings.Split(item, ".")
	// find root type
	var t types.Type
	for i, n := range ci.names {
		if n == parts[0] && i < len(ci.ptypes) {
			t = ci.ptypes[i]
		}
	}
	if t == nil && parts[0] == "self" && len(ci.ptypes) > 0 {
		t = ci.ptypes[0]
	}
	if t == nil {
		// type-qualified: Type.field in the callee's package (or pkg.Type.field)
		t = c.lookupTypeName(ci, parts[0])
		if t == nil && len(parts) > 2 {
			t = c.lookupTypeNameIn(parts[0], parts[1])
			parts = parts[1:]
		}
		if t == nil {
			c.note("modifies item %q of %s not resolved", item, ci.key)
			return nil
		}
	}
	for _, f := range parts[1:] {
		if p, ok := t.Underlying().(*types.Pointer); ok {
			t = p.Elem()
		}
		st, ok := t.Underlying().(*types.Struct)
		if !ok {
			// ghost field?
			if gf := c.g.ghostFields[fullTypeKey(t)]; gf != nil {
				if _, ok := gf[f]; ok {
					return []string{"$ghost:" + fullTypeKey(t) + "." + f}
				}
			}
			c.note("modifies item %q: %s is not a struct", item, t)
			return nil
		}
		found := false
		for i := 0; i < st.NumFields(); i++ {
			if st.Field(i).Name() == f {
				if len(parts) > 0 && f == parts[len(parts)-1] {
					// last: component(s) of this field
					var out []string
					if elems {
						et := elemType(st.Field(i).Type())
						if et == nil {
							return nil
						}
						for _, l := range c.leafLocs("nil", et) {
							out = append(out, l.comp)
						}
						return out
					}
					for _, l := range c.fieldLocs("nil", typeKey(t), st, i) {
						out = append(out, l.comp)
					}
					return out
				}
				t = st.Field(i).Type()
				found = true
				break
			}
		}
		if !found {
			if gf := c.g.ghostFields[fullTypeKey(t)]; gf != nil {
				if _, ok := gf[f]; ok {
					return []string{"$ghost:" + fullTypeKey(t) + "." + f}
				}
			}
			c.note("modifies item %q: no field %s", item, f)
			return nil
		}
	}
	// whole object / slice elements of a slice-typed param
	if p, ok := t.Underlying().(*types.Pointer); ok {
		t = p.Elem()
	}
	var out []string
	if elems {
		if et := elemType(t); et != nil {
			for _, l := range c.leafLocs("nil", et) {
				out = append(out, l.comp)
			}
		}
		return out
	}
	for _, l := range c.leafLocs("nil", t) {
		out = append(out, l.comp)
	}
	return out
}

func (c *fnCtx) lookupTypeName(ci calleeInfo, name string) types.Type {
	pkgs := []string{}
	if ci.con != nil {
		pkgs = append(pkgs, ci.con.Pkg)
	}
	if c.fn.Pkg != nil {
		pkgs = append(pkgs, c.fn.Pkg.Pkg.Path())
	}
	for _, p := range pkgs {
		if t := c.lookupTypeNameIn(p, name); t != nil {
			return t
		}
	}
	return nil
}

func (c *fnCtx) lookupTypeNameIn(pkgPath, name string) types.Type {
	for _, sp := range c.g.findPkgs(pkgPath) {
		{
			if o := sp.Pkg.Scope().Lookup(name); o != nil {
				if tn, ok := o.(*types.TypeName); ok {
					return tn.Type()
				}
			}
		}
	}
	return nil
}

// applyContract: check requires, havoc modifies, assume ensures.
func (c *fnCtx) applyContract(st *State, ci calleeInfo, args []SymVal, rt types.Type, pos token.Pos) SymVal {
	con := ci.con
	con.Used = true
	if con.Assumed || con.Trusted {
		c.assumedUsed[ci.key] = true
	}
	pre := st.clone()
	bind := func(env *Env) {
		env.atCall = true
		for i, n := range ci.names {
			if i < len(args) {
				a := args[i]
				if a.T == nil && i < len(ci.ptypes) {
					a.T = ci.ptypes[i]
				}
				env.vars[n] = a
			}
		}
		if len(args) > 0 {
			env.vars["self"] = args[0]
		}
		// the captured variables of a closure callee are bound to what the closure was made with
		if ci.fn != nil && len(ci.bindings) == len(ci.fn.FreeVars) {
			for i, fv := range ci.fn.FreeVars {
				if _, clash := env.vars[fv.Name()]; !clash {
					bv := c.val(pre, ci.bindings[i])
					if pt, ok := fv.Type().Underlying().(*types.Pointer); ok && bv.K == KRef {
						_, isAlloc := ci.bindings[i].(*ssa.Alloc)
						if pfv, isFV := ci.bindings[i].(*ssa.FreeVar); isFV && c.capturedByRef(pfv) {
							isAlloc = true
						}
						if isAlloc {
							// captured by reference: the name denotes the variable's current value
							bv = c.loadLocs(env.st, c.leafLocs(bv.S, pt.Elem()), pt.Elem())
						}
					}
					env.vars[fv.Name()] = bv
				}
			}
		}
		for i, n := range con.Aliases {
			if i < len(args) {
				a := args[i]
				if a.T == nil && i < len(ci.ptypes) {
					a.T = ci.ptypes[i]
				}
				env.vars[n] = a
			}
		}
	}
	c.calleeCount[ci.key]++
	short := calleeShort(ci)
	for _, r := range con.Requires {
		env := c.newEnv(st, pre)
		env.calleePkg = con.Pkg
		bind(env)
		t, err := env.evalBool(r.Text)
		if err != nil {
			c.abort("%s: requires of %s at call: %v", r.Pos, ci.key, err)
		}
		props := r.Props
		if len(props) == 0 {
			props = con.Props // a precondition belongs to the properties of the callee's contract
		}
		if len(props) == 0 {
			props = c.propsFor(nil)
		}
		c.oblige(st, "pre:"+short, t, r.Text, props, pos)
	}
	// termination: a call between two functions that both declare a measure must decrease it
	// (lexicographically; the component that decreases must be non-negative in the caller)
	if len(con.Decreases) > 0 && c.con != nil && len(c.con.Decreases) > 0 {
		cenv := c.newEnv(pre, pre)
		cenv.calleePkg = con.Pkg
		bind(cenv)
		eenv := c.newEnv(c.entry, c.entry)
		var cal, own []string
		ok := true
		for _, m := range con.Decreases {
			v, err := cenv.evalText(m)
			if err != nil || v.K != KInt {
				c.abort("%s: decreases of %s: %v", con.DecreasesPos, ci.key, err)
				ok = false
				break
			}
			cal = append(cal, v.S)
		}
		for _, m := range c.con.Decreases {
			v, err := eenv.evalText(m)
			if err != nil || v.K != KInt {
				c.abort("%s: decreases: %v", c.con.DecreasesPos, err)
				ok = false
				break
			}
			own = append(own, v.S)
		}
		if ok {
			n := len(cal)
			if len(own) < n {
				n = len(own)
			}
			var alts []string
			eq := "true"
			for i := 0; i < n; i++ {
				alts = append(alts, sAnd(eq, app("<", cal[i], own[i]), app("<=", "0", own[i])))
				eq = sAnd(eq, sEq(cal[i], own[i]))
			}
			props := append([]string{}, c.con.Props...)
			hasC02 := false
			for _, p := range props {
				if p == "C02" {
					hasC02 = true
				}
			}
			if !hasC02 {
				props = append(props, "C02") // unbounded recursion exhausts the Go stack: a host crash
			}
			c.oblige(st, "decreases:"+short, sOr(alts...), "measure ("+strings.Join(con.Decreases, ", ")+") of the callee is below ("+strings.Join(c.con.Decreases, ", ")+") of the caller", props, pos)
		}
	}
	// havoc
	for _, gm := range con.GhostMods {
		n := c.fresh("g")
		c.declare(n, "Int")
		st.ghost[gm] = n
	}
	for _, gc := range con.GhostComps {
		c.havocComp(st, gc)
	}
	if !con.HasMod {
		// no modifies clause: use the computed mod-set of the callee if it has a body
		if ci.fn != nil {
			ms := c.g.modSetOf(ci.fn)
			if ms.all {
				c.havocAll(st)
			} else {
				var ks []string
				for m := range ms.comps {
					ks = append(ks, m)
				}
				sort.Strings(ks)
				for _, m := range ks {
					c.havocComp(st, m)
				}
				c.bumpTop(st)
			}
		} else {
			c.havocAll(st)
		}
	} else if con.ModAll {
		c.havocAll(st)
	} else {
		env := c.newEnv(pre, pre)
		env.calleePkg = con.Pkg
		bind(env)
		for _, m := range con.Modifies {
			c.havocItem(st, env, ci, m)
		}
		if con.ModCallbacks {
			// the callee writes only through the methods / functions handed to it
			if ci.cc == nil {
				c.havocAll(st)
			} else if ms := c.g.externalCallMods(c.fn, ci.cc); ms.all {
				c.havocAll(st)
			} else {
				var ks []string
				for m := range ms.comps {
					ks = append(ks, m)
				}
				sort.Strings(ks)
				for _, m := range ks {
					if strings.HasPrefix(m, "$g:") {
						continue
					}
					c.havocComp(st, m)
				}
			}
		}
		if !con.Pure {
			c.bumpTop(st)
		}
	}
	// results
	var res SymVal
	var rnames []string
	if len(con.Results) > 0 {
		rnames = con.Results
	} else {
		rs := ci.sig.Results()
		for i := 0; i < rs.Len(); i++ {
			n := rs.At(i).Name()
			if n == "" || n == "_" {
				if rs.Len() == 1 {
					n = "result"
					for _, pn := range ci.names {
						if pn == "result" {
							n = "ret"
						}
					}
				} else {
					n = fmt.Sprintf("result%d", i)
				}
			}
			rnames = append(rnames, n)
		}
	}
	nres := ci.sig.Results().Len()
	if nres > 0 {
		res = c.freshVal(st, rt, "r_"+short)
	}
	for _, a := range con.Abstractions {
		c.assumedUsed["abstraction of "+ci.key+" (not verified against its body): "+a.Label] = true
	}
	for _, e := range append(append([]Clause{}, con.Ensures...), con.Abstractions...) {
		env := c.newEnv(st, pre)
		env.calleePkg = con.Pkg
		bind(env)
		if nres == 1 {
			env.vars[rnames[0]] = res
			if _, clash := env.vars["result"]; !clash {
				env.vars["result"] = res
			}
			if isErrorType(rt) {
				env.vars["err"] = res
			}
		} else {
			for i := 0; i < nres && i < len(rnames); i++ {
				env.vars[rnames[i]] = res.Fs[i]
				env.vars[fmt.Sprintf("result%d", i)] = res.Fs[i]
				if i == nres-1 && isErrorType(ci.sig.Results().At(i).Type()) {
					if _, ok := env.vars["err"]; !ok {
						env.vars["err"] = res.Fs[i]
					}
				}
			}
		}
		t, err := env.evalBool(e.Text)
		if err != nil {
			c.abort("%s: ensures of %s at call: %v", e.Pos, ci.key, err)
		}
		c.assume(st, t)
	}
	return res
}

// havocItem havocs one modifies item precisely where possible.
func (c *fnCtx) havocItem(st *State, env *Env, ci calleeInfo, item string) {
	if strings.HasPrefix(item, "g_") {
		n := c.fresh("g")
		c.declare(n, "Int")
		st.ghost[item] = n
		return
	}
	// precise: "*p" with p a pointer parameter
	if strings.HasPrefix(item, "*") {
		if root, ok := env.vars[item[1:]]; ok && root.K == KRef && root.T != nil {
			if pt, ok := root.T.Underlying().(*types.Pointer); ok {
				for _, l := range c.leafLocs(root.S, pt.Elem()) {
					srt := c.sortOf(l.k, l.t)
					old := c.comp(st, l.comp, srt)
					n := c.fresh("hv")
					c.declare(n, srt)
					st.heap[l.comp] = c.define("H", fmt.Sprintf("(Array Ref %s)", srt), app("store", old, l.ref, n))
					st.hbound[l.comp] = "$cur"
					tmp := SymVal{K: l.k, T: l.t, S: n}
					if l.k == KInt || l.k == KRef || l.k == KIface || l.k == KStr {
						c.assumeWellFormed(st, tmp)
					}
				}
				return
			}
		}
	}
	// precise: "p.f" with p a pointer parameter and f a scalar/slice field
	if !strings.HasSuffix(item, "[*]") && !strings.HasPrefix(item, "$mem:") && !strings.HasPrefix(item, "$ghost:") {
		parts := strings.Split(item, ".")
		if root, ok := env.vars[parts[0]]; ok && len(parts) >= 2 {
			locs, ok2 := env.selectorLocs(root, parts[1:])
			if ok2 {
				for _, l := range locs {
					srt := c.sortOf(l.k, l.t)
					old := c.comp(st, l.comp, srt)
					n := c.fresh("hv")
					c.declare(n, srt)
					st.heap[l.comp] = c.define("H", fmt.Sprintf("(Array Ref %s)", srt), app("store", old, l.ref, n))
					st.hbound[l.comp] = "$cur"
					// well-formedness of the new leaf
					tmp := SymVal{K: l.k, T: l.t, S: n}
					if l.k == KInt || l.k == KRef || l.k == KIface || l.k == KStr {
						c.assumeWellFormed(st, tmp)
					}
				}
				return
			}
		}
	}
	for _, comp := range c.modItemComps(ci, item) {
		c.havocComp(st, comp)
	}
}

// ---------------------------------------------------------------------------
// Builtins

func (c *fnCtx) execBuiltin(st *State, b *ssa.Builtin, cc *ssa.CallCommon, in ssa.Instruction) SymVal {
	var rt types.Type
	if v, ok := in.(ssa.Value); ok {
		rt = v.Type()
	}
	switch b.Name() {
	case "len", "cap":
		x := c.val(st, cc.Args[0])
		switch x.K {
		case KSlice:
			if b.Name() == "len" {
				return mkInt(x.Fs[2].S, rt)
			}
			return mkInt(x.Fs[3].S, rt)
		case KStr:
			return mkInt(c.lenOfStr(x), rt)
		}
		if pt, ok := cc.Args[0].Type().Underlying().(*types.Pointer); ok {
			if arr, ok := pt.Elem().Underlying().(*types.Array); ok {
				return mkInt(c.intConstLen(arr.Len()), rt)
			}
		}
		v := c.freshVal(st, rt, "len")
		c.assume(st, c.cmpS("<=", c.zeroInt(), v.S))
		return v
	case "append":
		return c.execAppend(st, cc, rt, in.Pos())
	case "copy":
		dst := c.val(st, cc.Args[0])
		if dst.K == KSlice {
			et := elemType(cc.Args[0].Type())
			for _, l := range c.leafLocs("nil", et) {
				c.havocComp(st, l.comp)
			}
		}
		v := c.freshVal(st, rt, "copy")
		src := c.val(st, cc.Args[1])
		var sl string
		if src.K == KSlice {
			sl = src.Fs[2].S
		} else {
			sl = c.lenOfStr(src)
		}
		if !c.bv {
			c.assume(st, app("=", v.S, app("imin", dst.Fs[2].S, sl)))
		}
		return v
	case "min", "max":
		x := c.val(st, cc.Args[0])
		for _, a := range cc.Args[1:] {
			y := c.val(st, a)
			if x.K == KInt && !c.bv {
				if b.Name() == "min" {
					x = mkInt(app("imin", x.S, y.S), rt)
				} else {
					x = mkInt(app("imax", x.S, y.S), rt)
				}
			} else {
				return c.freshVal(st, rt, b.Name())
			}
		}
		return x
	case "delete", "print", "println":
		return SymVal{}
	case "clear":
		ms, _ := c.callMods(cc)
		for _, m := range ms {
			c.havocComp(st, m)
		}
		return SymVal{}
	case "recover":
		return c.freshVal(st, rt, "recover")
	case "ssa:wrapnilchk":
		return c.val(st, cc.Args[0])
	}
	c.note("builtin %s abstracted", b.Name())
	if rt == nil {
		return SymVal{}
	}
	return c.freshVal(st, rt, b.Name())
}

// execAppend models append(s, x...) without quantifiers: the result either
// shares s's backing array (capacity permitting) or lives in a fresh array
// whose row is a copy of the old row.
func (c *fnCtx) execAppend(st *State, cc *ssa.CallCommon, rt types.Type, pos token.Pos) SymVal {
	s := c.coerceNil(c.val(st, cc.Args[0]), cc.Args[0].Type())
	et := elemType(rt)
	// the second argument of the SSA form is always a slice (or string)
	x := c.coerceNil(c.val(st, cc.Args[1]), cc.Args[1].Type())
	var n string
	if x.K == KSlice {
		n = x.Fs[2].S
	} else if x.K == KStr {
		n = c.lenOfStr(x)
	} else {
		return c.freshVal(st, rt, "append")
	}
	// the fresh backing array is allocated first: the result's well-formedness bound
	// (its store exists by now) must cover it
	fr := c.allocRef(st)
	res := c.freshVal(st, rt, "app")
	newLen := c.addInt(s.Fs[2].S, n)
	inPlace := c.fresh("inplace")
	c.declare(inPlace, "Bool")
	c.assume(st, sAnd(
		sEq(res.Fs[2].S, newLen),
		sImp(inPlace, sAnd(c.cmpS("<=", newLen, s.Fs[3].S), sEq(res.Fs[0].S, s.Fs[0].S), sEq(res.Fs[1].S, s.Fs[1].S), sEq(res.Fs[3].S, s.Fs[3].S))),
		sImp(sNot(inPlace), sAnd(sEq(res.Fs[0].S, fr), sEq(res.Fs[1].S, c.zeroInt()))),
		sImp(sEq(n, c.zeroInt()), sAnd(inPlace)),
	))
	// contents: when exactly one element is appended (the common x = append(x, v) form
	// compiles to a 1-element slice literal) we know its value
	locs := c.leafLocs("nil", et)
	single := c.singleAppended(st, cc.Args[1])
	for i, l := range locs {
		srt := c.sortOf(l.k, l.t)
		old := c.comp(st, l.comp, srt)
		if single != nil {
			fl := flatten(*single)
			// new row: in the fresh case copy the old row element-wise is not expressible without
			// quantifiers; we use a fresh array equal to old except at the written cell and,
			// for the fresh store, constrained pointwise through a quantifier-free frame:
			//   H' = store(H, elm(resStore, resOff+len), v)  and for the fresh store the cells
			//   elm(fr, k) for k < len equal elm(s.store, s.off + k)  (stated with a forall)
			idx0 := app("elm", s.Fs[0].S, c.addI(s.Fs[1].S, s.Fs[2].S))
			idxF := app("elm", fr, c.idxToInt(s.Fs[2].S))
			nh := c.fresh("H")
			c.declare(nh, fmt.Sprintf("(Array Ref %s)", srt))
			c.assume(st, sAnd(
				// in place: exactly one cell of the shared backing array is written
				sImp(inPlace, sEq(nh, app("store", old, idx0, fl[i].S))),
				// reallocated: the fresh array holds a copy plus the new element; nothing else moves
				sImp(sNot(inPlace), sAnd(
					app("=", app("select", nh, idxF), fl[i].S),
					fmt.Sprintf("(forall ((r Ref)) (! (=> (not (= (rootid r) (rootid %s))) (= (select %s r) (select %s r))) :pattern ((select %s r))))", fr, nh, old, nh),
					fmt.Sprintf("(forall ((k Int)) (! (=> (and (<= 0 k) (< k %s)) (= (select %s (elm %s k)) (select %s (elm %s (+ %s k))))) :pattern ((select %s (elm %s k)))))",
						c.idxToInt(s.Fs[2].S), nh, fr, old, s.Fs[0].S, c.idxToInt(s.Fs[1].S), nh, fr),
				)),
			))
			st.heap[l.comp] = nh
			st.hbound[l.comp] = "$cur"
		} else if len(locs) == 1 && !c.bv && (x.K == KSlice || x.K == KStr) {
			// append(s, x...): n elements are copied from x (read in the old heap: memmove semantics)
			nh := c.fresh("H")
			c.declare(nh, fmt.Sprintf("(Array Ref %s)", srt))
			src := func(j string) string {
				if x.K == KStr {
					return app("sat", x.S, j)
				}
				return app("select", old, app("elm", x.Fs[0].S, app("+", c.idxToInt(x.Fs[1].S), j)))
			}
			slen, soff, nI := c.idxToInt(s.Fs[2].S), c.idxToInt(s.Fs[1].S), c.idxToInt(n)
			lo := app("+", soff, slen)
			hi := app("+", lo, nI)
			c.assume(st, sAnd(
				sImp(inPlace, sAnd(
					fmt.Sprintf("(forall ((r Ref)) (! (or (= (select %s r) (select %s r)) (and ((_ is elm) r) (= (ebase r) %s) (<= %s (eidx r)) (< (eidx r) %s))) :pattern ((select %s r))))", nh, old, s.Fs[0].S, lo, hi, nh),
					fmt.Sprintf("(forall ((j Int)) (! (=> (and (<= 0 j) (< j %s)) (= (select %s (elm %s (+ %s j))) %s)) :pattern ((select %s (elm %s (+ %s j))))))", nI, nh, s.Fs[0].S, lo, src("j"), nh, s.Fs[0].S, lo),
				)),
				sImp(sNot(inPlace), sAnd(
					fmt.Sprintf("(forall ((r Ref)) (! (=> (not (= (rootid r) (rootid %s))) (= (select %s r) (select %s r))) :pattern ((select %s r))))", fr, nh, old, nh),
					fmt.Sprintf("(forall ((k Int)) (! (=> (and (<= 0 k) (< k %s)) (= (select %s (elm %s k)) (select %s (elm %s (+ %s k))))) :pattern ((select %s (elm %s k)))))",
						slen, nh, fr, old, s.Fs[0].S, soff, nh, fr),
					fmt.Sprintf("(forall ((j Int)) (! (=> (and (<= 0 j) (< j %s)) (= (select %s (elm %s (+ %s j))) %s)) :pattern ((select %s (elm %s (+ %s j))))))", nI, nh, fr, slen, src("j"), nh, fr, slen),
				)),
			))
			st.heap[l.comp] = nh
			st.hbound[l.comp] = "$cur"
		} else {
			c.havocComp(st, l.comp)
		}
	}
	return res
}

// singleAppended recognises the SSA shape of append(s, v): a one-element
// array allocated, stored and sliced immediately before the call.
func (c *fnCtx) singleAppended(st *State, arg ssa.Value) *SymVal {
	sl, ok := arg.(*ssa.Slice)
	if !ok {
		return nil
	}
	al, ok := sl.X.(*ssa.Alloc)
	if !ok {
		return nil
	}
	arr, ok := al.Type().Underlying().(*types.Pointer).Elem().Underlying().(*types.Array)
	if !ok || arr.Len() != 1 {
		return nil
	}
	// find the store into element 0
	for _, r := range *al.Referrers() {
		if ia, ok := r.(*ssa.IndexAddr); ok {
			for _, rr := range *ia.Referrers() {
				if s, ok := rr.(*ssa.Store); ok && s.Addr == ia {
					v := c.coerceNil(c.val(st, s.Val), arr.Elem())
					return &v
				}
			}
		}
	}
	return nil
}

// ---------------------------------------------------------------------------
// Defers

func (c *fnCtx) runDefers(st *State, pos token.Pos) {
	for i := len(st.defers) - 1; i >= 0; i-- {
		d := st.defers[i]
		if d.flag == "false" {
			continue
		}
		if d.prepaid {
			saved := map[string]string{}
			for k, v := range st.ghost {
				saved[k] = v
			}
			if d.flag != "false" {
				c.execCall(st, d.call, &d.call.Call, nil)
			}
			st.ghost = saved
			continue
		}
		if d.flag == "true" {
			c.execCall(st, d.call, &d.call.Call, nil)
			continue
		}
		// conditional: run on a branch and merge
		yes := st.clone()
		c.assume(yes, d.flag)
		c.execCall(yes, d.call, &d.call.Call, nil)
		no := st.clone()
		c.assume(no, sNot(d.flag))
		c.mergeTwo(st, yes, no)
		c.sealBounds(st)
	}
	st.defers = nil
}

// mergeTwo joins two successor states of the same origin into dst.
func (c *fnCtx) mergeTwo(dst, a, b *State) {
	cond := a.cur
	keys := map[string]bool{}
	for k := range a.heap {
		keys[k] = true
	}
	for k := range b.heap {
		keys[k] = true
	}
	if a.base != b.base {
		for k := range c.comps {
			keys[k] = true
		}
		c.nbase++
		dst.base = c.nbase
	} else {
		dst.base = a.base
	}
	dst.heap = map[string]string{}
	dst.hbound = map[string]string{}
	var ks []string
	for k := range keys {
		ks = append(ks, k)
	}
	sort.Strings(ks)
	for _, k := range ks {
		srt := c.compSort(k)
		dst.heap[k] = c.define("H", fmt.Sprintf("(Array Ref %s)", srt), sIte(cond, c.comp(a, k, srt), c.comp(b, k, srt)))
		dst.hbound[k] = "$cur"
	}
	if a.baseTop != b.baseTop || a.base != b.base {
		dst.baseTop = "$cur"
	}
	dst.ghost = map[string]string{}
	for k, v := range a.ghost {
		bv, ok := b.ghost[k]
		if !ok {
			bv = c.ghostEntry(k)
		}
		dst.ghost[k] = c.define("g", "Int", sIte(cond, v, bv))
	}
	for k, v := range b.ghost {
		if _, ok := a.ghost[k]; !ok {
			dst.ghost[k] = c.define("g", "Int", sIte(cond, c.ghostEntry(k), v))
		}
	}
	dst.top = c.define("top", "Int", sIte(cond, a.top, b.top))
	dst.cur = c.define("cur", "Bool", sOr(a.cur, b.cur))
}
