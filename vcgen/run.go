package main

import (
	"fmt"
	"go/ast"
	"go/parser"
	"go/token"
	"go/types"
	"os"
	"regexp"
	"sort"
	"strings"

	"golang.org/x/tools/go/ssa"
)

func newFnCtx(g *Global, fn *ssa.Function, con *FuncContract) *fnCtx {
	c := &fnCtx{g: g, fn: fn, con: con, vals: map[ssa.Value]SymVal{}, out: map[*ssa.BasicBlock]*State{},
		edge: map[[2]int]string{}, counts: map[string]int{}, comps: map[string]string{}, compDeclared: map[string]bool{},
		strlits: map[string]string{}, flags: map[string]string{}, fired: map[int]bool{}, anchorLines: map[int][]int{}, implDone: map[string]bool{}, loopOf: map[*ssa.BasicBlock]*loopInfo{},
		dbg: map[string][]dbgRef{}, lets: map[string]SymVal{}, paramVals: map[string]SymVal{},
		unboxDeclared: map[string]bool{}, specFnDeclared: map[string]bool{}, calleeCount: map[string]int{}, assumedUsed: map[string]bool{}}
	c.fnName = shortFnName(g.funcKey[fn])
	if c.fnName == "" {
		c.fnName = fn.String()
	}
	if con != nil {
		c.bv = con.Arith == "bv"
		c.checkPanics = con.NoPanic || con.Sweep
	}
	return c
}

func shortFnName(k string) string {
	return strings.TrimPrefix(k, "go.starlark.net/")
}

// findLoops identifies natural loops (back edges to dominators).
func (c *fnCtx) findLoops() {
	fn := c.fn
	byHeader := map[*ssa.BasicBlock]*loopInfo{}
	for _, b := range fn.Blocks {
		for _, s := range b.Succs {
			if s.Dominates(b) {
				li := byHeader[s]
				if li == nil {
					li = &loopInfo{header: s, body: map[*ssa.BasicBlock]bool{s: true}}
					byHeader[s] = li
				}
				li.backs = append(li.backs, b)
				// natural loop body: nodes that reach b without passing through s
				stack := []*ssa.BasicBlock{b}
				for len(stack) > 0 {
					n := stack[len(stack)-1]
					stack = stack[:len(stack)-1]
					if li.body[n] {
						continue
					}
					li.body[n] = true
					stack = append(stack, n.Preds...)
				}
			}
		}
	}
	var hs []*ssa.BasicBlock
	for h := range byHeader {
		hs = append(hs, h)
	}
	sort.Slice(hs, func(i, j int) bool { return hs[i].Index < hs[j].Index })
	for i, h := range hs {
		li := byHeader[h]
		li.ordinal = i + 1
		c.loops = append(c.loops, li)
		c.loopOf[h] = li
	}
}

// topoOrder returns blocks in an order where every forward predecessor comes first.
func (c *fnCtx) topoOrder() []*ssa.BasicBlock {
	fn := c.fn
	visited := map[*ssa.BasicBlock]bool{}
	var post []*ssa.BasicBlock
	var dfs func(b *ssa.BasicBlock)
	dfs = func(b *ssa.BasicBlock) {
		visited[b] = true
		for _, s := range b.Succs {
			if !visited[s] {
				dfs(s)
			}
		}
		post = append(post, b)
	}
	dfs(fn.Blocks[0])
	if fn.Recover != nil && !visited[fn.Recover] {
		// recover block is handled separately (not modelled)
	}
	out := make([]*ssa.BasicBlock, len(post))
	for i, b := range post {
		out[len(post)-1-i] = b
	}
	return out
}

func (c *fnCtx) inLoop(b *ssa.BasicBlock) bool {
	for _, li := range c.loops {
		if li.body[b] {
			return true
		}
	}
	return false
}

func (c *fnCtx) isBackEdge(from, to *ssa.BasicBlock) bool {
	return to.Dominates(from)
}

// run generates all obligations of the function.
func (c *fnCtx) run() (err error) {
	defer func() {
		if r := recover(); r != nil {
			if ab, ok := r.(abortErr); ok {
				err = fmt.Errorf("%s", string(ab))
				return
			}
			panic(r)
		}
	}()
	fn := c.fn
	if len(fn.Blocks) == 0 {
		return fmt.Errorf("no body")
	}
	c.findLoops()
	c.collectDebug()
	// entry state
	c.declare("cur!0", "Bool")
	c.assertGlobal("cur!0")
	c.declare("top!0", "Int")
	c.assertGlobal("(>= top!0 0)")
	st := &State{cur: "cur!0", heap: map[string]string{}, ghost: map[string]string{}, hbound: map[string]string{}, top: "top!0", baseTop: "top!0"}
	c.entry = st
	for _, p := range fn.Params {
		v := c.freshVal(st, p.Type(), "p_"+p.Name())
		c.vals[p] = v
		c.paramVals[p.Name()] = v
		pi := ParamInfo{Name: p.Name(), GoType: typeKey(p.Type())}
		for _, f := range flatten(v) {
			pi.Leaves = append(pi.Leaves, f.S)
			pi.Kinds = append(pi.Kinds, fmt.Sprint(int(f.K)))
		}
		c.params = append(c.params, pi)
	}
	for _, fv := range fn.FreeVars {
		c.vals[fv] = c.freshVal(st, fv.Type(), "fv_"+fv.Name())
	}
	if c.sweepOnly {
		// calling convention assumed by the safety sweep (C02 quantifies over Starlark programs and
		// over built-in calls with arbitrary Starlark values, not over nil Go pointers):
		// receivers, pointer and interface parameters are non-nil; the elements of an argument
		// tuple are non-nil values; keyword arguments are (String, value) pairs.
		// captured variables: a by-reference capture is the address of a live variable of the
		// enclosing activation; a by-value captured pointer falls under the same convention as a
		// receiver
		for _, fv := range fn.FreeVars {
			if v := c.vals[fv]; v.K == KRef {
				c.assume(st, sNot(sEq(v.S, "nil")))
			}
		}
		for _, p := range fn.Params {
			v := c.vals[p]
			switch v.K {
			case KRef:
				c.assume(st, sNot(sEq(v.S, "nil")))
			case KIface:
				c.assume(st, sNot(sEq(v.S, "nilI")))
			case KSlice:
				env := c.newEnv(st, st)
				env.vars["a"] = v
				tk := typeKey(p.Type())
				switch tk {
				case "starlark.Tuple":
					if t, err := env.evalBool("forall(k, 0, len(a), a[k] != nil)"); err == nil {
						c.assume(st, t)
					}
				case "[]starlark.Tuple":
					if t, err := env.evalBool("forall(k, 0, len(a), len(a[k]) == 2 && a[k][0] != nil && a[k][1] != nil && typeis(a[k][0], String))"); err == nil {
						c.assume(st, t)
					}
				}
			}
		}
	}
	if c.con != nil {
		for i, a := range c.con.Aliases {
			if i < len(fn.Params) {
				if _, clash := c.paramVals[a]; !clash {
					c.paramVals[a] = c.vals[fn.Params[i]]
				}
			}
		}
	}
	for _, d := range c.g.axioms {
		if fn.Pkg == nil || c.bv {
			continue
		}
		if d.Pkg != fn.Pkg.Pkg.Path() {
			// axioms that come with the assumed contracts of an external package hold wherever a
			// contract of that package has been (or will be) used: only in functions calling into it
			if strings.HasPrefix(d.Pkg, "go.starlark.net") || !c.callsPackage(d.Pkg) {
				continue
			}
		}
		env := c.newEnv(st, st)
		env.calleePkg = d.Pkg
		r, err := env.evalBool(d.Text)
		if err != nil {
			c.note("axiom %s: %v", d.Pos, err)
			continue
		}
		c.assume(st, r)
	}
	entrySnapshot := st.clone()
	c.entry = entrySnapshot
	if c.con != nil {
		// lets and requires
		for _, l := range c.con.Lets {
			i := strings.Index(l.Text, "=")
			name := strings.TrimSpace(l.Text[:i])
			env := c.newEnv(st, entrySnapshot)
			v, err := env.evalText(strings.TrimSpace(l.Text[i+1:]))
			if err != nil {
				return fmt.Errorf("%s: let %s: %v", l.Pos, name, err)
			}
			c.lets[name] = c.nameVal(v, "let_"+name)
		}
		for _, r := range c.con.Requires {
			env := c.newEnv(st, entrySnapshot)
			t, err := env.evalBool(r.Text)
			if err != nil {
				return fmt.Errorf("%s: requires: %v", r.Pos, err)
			}
			c.assume(st, t)
		}
		// vacuity guard: the preconditions must be satisfiable
		c.cover(st, "pre-sat", "requires satisfiable")
	}
	c.entry = st.clone()
	// walk blocks
	order := c.topoOrder()
	in := map[*ssa.BasicBlock]*State{}
	in[fn.Blocks[0]] = st
	for _, b := range order {
		var bst *State
		if b == fn.Blocks[0] {
			bst = st
		} else {
			bst = c.mergeInto(b)
			if bst == nil {
				continue
			}
		}
		c.execBlock(b, bst)
	}
	c.finish()
	return nil
}

type abortErr string

func (c *fnCtx) abort(format string, args ...any) {
	panic(abortErr(fmt.Sprintf(format, args...)))
}

func (c *fnCtx) cover(st *State, kind, clause string) {
	o := &Obligation{Name: c.oblName(kind), Fn: c.fnName, Kind: kind, Props: c.propsFor(nil), Clause: clause,
		Backend: "smt", declLen: c.sb.Len(), cur: st.cur, goal: "false", Cover: true}
	c.obls = append(c.obls, o)
}

// mergeInto computes the entry state of block b from its forward predecessors.
func (c *fnCtx) mergeInto(b *ssa.BasicBlock) *State {
	type inc struct {
		pred *ssa.BasicBlock
		cond string
		st   *State
		idx  int
	}
	var incs []inc
	for i, p := range b.Preds {
		if c.isBackEdge(p, b) {
			continue
		}
		pst := c.out[p]
		if pst == nil {
			continue // unreachable predecessor
		}
		cond, ok := c.edge[[2]int{p.Index, b.Index}]
		if !ok {
			continue
		}
		incs = append(incs, inc{p, cond, pst, i})
	}
	if len(incs) == 0 {
		return nil
	}
	li := c.loopOf[b]
	st := &State{heap: map[string]string{}, ghost: map[string]string{}, hbound: map[string]string{}}
	// reach condition
	var conds []string
	for _, in := range incs {
		conds = append(conds, in.cond)
	}
	st.cur = c.define("cur", "Bool", sOr(conds...))
	// heap merge
	sameBase := true
	for _, in := range incs[1:] {
		if in.st.base != incs[0].st.base {
			sameBase = false
		}
	}
	keys := map[string]bool{}
	for _, in := range incs {
		for k := range in.st.heap {
			keys[k] = true
		}
		for k := range in.st.ghost {
			keys["\x00"+k] = true
		}
	}
	if sameBase {
		st.base = incs[0].st.base
	} else {
		// materialise every known component in every predecessor
		for k := range c.comps {
			keys[k] = true
		}
		c.nbase++
		st.base = c.nbase
	}
	var ks []string
	for k := range keys {
		ks = append(ks, k)
	}
	sort.Strings(ks)
	for _, k := range ks {
		if strings.HasPrefix(k, "\x00") {
			gk := k[1:]
			term := ""
			for i := len(incs) - 1; i >= 0; i-- {
				v, ok := incs[i].st.ghost[gk]
				if !ok {
					v = c.ghostEntry(gk)
				}
				if term == "" {
					term = v
				} else {
					term = sIte(incs[i].cond, v, term)
				}
			}
			st.ghost[gk] = c.define("g", "Int", term)
			continue
		}
		sort_ := c.compSort(k)
		term := ""
		for i := len(incs) - 1; i >= 0; i-- {
			v := c.comp(incs[i].st, k, sort_)
			if term == "" {
				term = v
			} else {
				term = sIte(incs[i].cond, v, term)
			}
		}
		st.heap[k] = c.define("H", fmt.Sprintf("(Array Ref %s)", sort_), term)
		sameB := true
		b0 := c.boundOf(incs[0].st, k)
		for _, in := range incs[1:] {
			if c.boundOf(in.st, k) != b0 {
				sameB = false
			}
		}
		if sameB && b0 != "$cur" {
			st.hbound[k] = b0
		} else {
			st.hbound[k] = "$cur"
		}
	}
	{
		sameBT := true
		for _, in := range incs[1:] {
			if in.st.baseTop != incs[0].st.baseTop {
				sameBT = false
			}
		}
		if sameBT && sameBase {
			st.baseTop = incs[0].st.baseTop
		} else {
			st.baseTop = "$cur"
		}
	}
	// top
	{
		term := ""
		for i := len(incs) - 1; i >= 0; i-- {
			if term == "" {
				term = incs[i].st.top
			} else {
				term = sIte(incs[i].cond, incs[i].st.top, term)
			}
		}
		st.top = c.define("top", "Int", term)
	}
	// defers: union (flags merged)
	{
		seen := map[*ssa.Defer]int{}
		for _, in := range incs {
			for _, d := range in.st.defers {
				if _, ok := seen[d.call]; !ok {
					seen[d.call] = len(st.defers)
					st.defers = append(st.defers, deferred{flag: "false", call: d.call, prepaid: d.prepaid})
				}
			}
		}
		for di := range st.defers {
			term := "false"
			for i := len(incs) - 1; i >= 0; i-- {
				f := "false"
				for _, d := range incs[i].st.defers {
					if d.call == st.defers[di].call {
						f = d.flag
					}
				}
				term = sIte(incs[i].cond, f, term)
			}
			st.defers[di].flag = c.define("dfl", "Bool", term)
		}
	}
	// phis
	if li == nil {
		for _, in := range b.Instrs {
			phi, ok := in.(*ssa.Phi)
			if !ok {
				break
			}
			var v SymVal
			first := true
			for i := len(incs) - 1; i >= 0; i-- {
				ev := c.val(incs[i].st, phi.Edges[incs[i].idx])
				ev = c.coerceNil(ev, phi.Type())
				if first {
					v = ev
					first = false
				} else {
					v = iteVal(incs[i].cond, ev, v)
				}
			}
			v.T = phi.Type()
			c.vals[phi] = c.nameVal(v, "phi_"+phi.Comment)
		}
		c.sealBounds(st)
		return st
	}
	// ---- loop header: check invariant on entry, havoc, assume invariant
	li.preSt = st.clone()
	// invariant on entry: evaluate with phis bound to entry values
	entryPhi := map[*ssa.Phi]SymVal{}
	for _, in := range b.Instrs {
		phi, ok := in.(*ssa.Phi)
		if !ok {
			break
		}
		var v SymVal
		first := true
		for i := len(incs) - 1; i >= 0; i-- {
			ev := c.coerceNil(c.val(incs[i].st, phi.Edges[incs[i].idx]), phi.Type())
			if first {
				v = ev
				first = false
			} else {
				v = iteVal(incs[i].cond, ev, v)
			}
		}
		v.T = phi.Type()
		entryPhi[phi] = c.nameVal(v, "phi0_"+phi.Comment)
	}
	c.autoInvariants(li)
	invs := c.invariantsFor(li)
	for _, inv := range invs {
		for phi, v := range entryPhi {
			c.vals[phi] = v
		}
		env := c.newEnvAt(st, b)
		t, err := env.evalBool(inv.Text)
		if err != nil {
			c.abort("%s: invariant: %v", inv.Pos, err)
		}
		c.oblige(st, invKind("inv-entry", li.ordinal, inv.Label), t, inv.Text, inv.Props, b.Instrs[0].Pos())
	}
	// havoc: phis and modified components
	for _, in := range b.Instrs {
		phi, ok := in.(*ssa.Phi)
		if !ok {
			break
		}
		c.vals[phi] = c.freshVal(st, phi.Type(), "phi_"+phi.Comment)
	}
	mods, all := c.loopMods(li)
	if all {
		c.havocAll(st)
	} else {
		preTop := st.top
		pre := map[string]string{}
		for _, m := range mods {
			if li.localOnly[m] && !strings.HasPrefix(m, "$g:") {
				pre[m] = c.comp(st, m, c.compSort(m))
			}
		}
		for _, m := range mods {
			c.havocComp(st, m)
		}
		if c.loopAllocates(li) {
			c.bumpTop(st)
		}
		// components written only inside this activation's own allocations keep their values everywhere else
		for _, m := range mods {
			if !li.localOnly[m] || strings.HasPrefix(m, "$g:") {
				continue
			}
			cond := app("<=", app("rootid", "r"), preTop)
			for _, al := range li.outerAllocs[m] {
				if v, ok := c.vals[al]; ok {
					cond = sAnd(cond, sNot(app("=", app("rootid", "r"), app("rootid", v.S))))
				}
			}
			hn := st.heap[m]
			c.assume(st, fmt.Sprintf("(forall ((r Ref)) (! (=> %s (= (select %s r) (select %s r))) :pattern ((select %s r))))", cond, hn, pre[m], hn))
		}
	}
	// a function with a modifies clause keeps its frame at every loop head (checked at the back edges)
	if c.con != nil && c.con.HasMod && !c.con.ModAll && !all {
		whole, precise := c.modSpec()
		for _, m := range mods {
			if whole[m] || strings.HasPrefix(m, "$g:") {
				continue
			}
			srt := c.compSort(m)
			h0 := c.comp(c.entry, m, srt)
			hn := c.comp(st, m, srt)
			if h0 == hn {
				continue
			}
			li.frameComps = append(li.frameComps, m)
			c.assume(st, fmt.Sprintf("(forall ((r Ref)) (! (=> %s (= (select %s r) (select %s r))) :pattern ((select %s r))))", c.frameCond(m, "r", precise), hn, h0, hn))
		}
	}
	autoGhost := map[string]string{}
	for gk := range c.loopGhostMods(li) {
		mentioned := false
		for _, inv := range invs {
			if strings.Contains(inv.Text, gk) {
				mentioned = true
			}
		}
		pre, ok := st.ghost[gk]
		if !ok {
			pre = c.ghostEntry(gk)
		}
		n := c.fresh("g")
		c.declare(n, "Int")
		st.ghost[gk] = n
		if !mentioned && gk == "g_open" {
			// default candidate: the loop is balanced (each iteration releases what it acquires)
			autoGhost[gk] = pre
			c.assume(st, sEq(n, pre))
		}
	}
	li.autoGhost = autoGhost
	for _, inv := range invs {
		env := c.newEnvAt(st, b)
		t, err := env.evalBool(inv.Text)
		if err != nil {
			c.abort("%s: invariant: %v", inv.Pos, err)
		}
		c.assume(st, t)
	}
	c.sealBounds(st)
	li.headSt = st.clone()
	return st
}

func (c *fnCtx) coerceNil(v SymVal, t types.Type) SymVal {
	if v.K == KNilLit {
		return c.zeroVal(t)
	}
	return v
}

func (c *fnCtx) invariantsFor(li *loopInfo) []Clause {
	if c.con == nil {
		return nil
	}
	if invs := c.con.Invariants[li.ordinal]; len(invs) > 0 {
		// user invariants first; the automatic counter candidates are kept as well unless the
		// user text already contains them
		out := append([]Clause{}, invs...)
		for _, a := range c.autoInvs[li.ordinal] {
			dup := false
			for _, u := range invs {
				if strings.Contains(u.Text, a.Text) {
					dup = true
				}
			}
			if !dup {
				out = append(out, a)
			}
		}
		return out
	}
	return c.autoInvs[li.ordinal]
}

// autoInvariants: for a loop without user invariants, every header phi of the shape
// phi(c, phi + k) with constants c and k > 0 (a counter) gets the candidate "phi >= c".
// Candidates are checked like any invariant (entry and preservation) before they are used.
func (c *fnCtx) autoInvariants(li *loopInfo) []Clause {
	if c.autoInvs == nil {
		c.autoInvs = map[int][]Clause{}
	}
	if invs, ok := c.autoInvs[li.ordinal]; ok {
		return invs
	}
	var out []Clause
	for _, in := range li.header.Instrs {
		phi, ok := in.(*ssa.Phi)
		if !ok {
			break
		}
		if phi.Comment == "" || kindOf(phi.Type()) != KInt {
			continue
		}
		_, signed, _ := intInfo(phi.Type())
		if !signed {
			continue
		}
		var init *ssa.Const
		okShape := true
		for i, e := range phi.Edges {
			pred := li.header.Preds[i]
			if li.body[pred] {
				// back edge: must be phi + k
				b, isB := e.(*ssa.BinOp)
				if !isB || b.Op != token.ADD || b.X != ssa.Value(phi) {
					okShape = false
					break
				}
				k, isC := b.Y.(*ssa.Const)
				if !isC || k.Value == nil || k.Int64() <= 0 {
					okShape = false
				}
			} else {
				k, isC := e.(*ssa.Const)
				if !isC || k.Value == nil {
					okShape = false
					break
				}
				if init != nil && init.Int64() != k.Int64() {
					okShape = false
				}
				init = k
			}
		}
		if !okShape || init == nil {
			continue
		}
		// the increment must be protected from wrapping by an upper test: either the header
		// tests the counter (or counter+k) with < / <=, or every edge into the header is guarded
		// (checked below); otherwise no candidate (e.g. for i := 0; it.Next(&x); i++)
		tested := false
		if ifi, ok := li.header.Instrs[len(li.header.Instrs)-1].(*ssa.If); ok {
			if cmp, ok := ifi.Cond.(*ssa.BinOp); ok && (cmp.Op == token.LSS || cmp.Op == token.LEQ) {
				if cmp.X == ssa.Value(phi) {
					tested = true
				} else if b, ok := cmp.X.(*ssa.BinOp); ok && b.Op == token.ADD && b.X == ssa.Value(phi) {
					tested = true
				}
			}
		}
		edgeGuarded := true
		for i := range phi.Edges {
			pred := li.header.Preds[i]
			ifi, isIf := pred.Instrs[len(pred.Instrs)-1].(*ssa.If)
			if !isIf || pred.Succs[0] != li.header {
				edgeGuarded = false
				break
			}
			if cmp, ok := ifi.Cond.(*ssa.BinOp); !ok || cmp.Op != token.LSS {
				edgeGuarded = false
				break
			}
		}
		if !tested && !edgeGuarded {
			continue
		}
		props := c.propsFor(nil)
		if len(props) == 0 {
			props = []string{"*"} // scan mode: belongs to whatever properties the function's obligations serve
		}
		pname := strings.ReplaceAll(phi.Comment, ".", "_")
		out = append(out, Clause{Kind: "invariant", Loop: li.ordinal, Label: "auto", Props: props,
			Text: fmt.Sprintf("%s >= %d", pname, init.Int64()), Pos: "auto"})
		// rotated loops (range over an integer): every edge into the header is guarded by "value < B"
		var bound ssa.Value
		guarded := true
		for i, e := range phi.Edges {
			pred := li.header.Preds[i]
			ifi, isIf := pred.Instrs[len(pred.Instrs)-1].(*ssa.If)
			if !isIf || pred.Succs[0] != li.header {
				guarded = false
				break
			}
			cmp, isB := ifi.Cond.(*ssa.BinOp)
			if !isB || cmp.Op != token.LSS {
				guarded = false
				break
			}
			// the compared value is the one flowing into the phi along this edge
			same := cmp.X == e
			if kx, ok := cmp.X.(*ssa.Const); ok {
				if ke, ok := e.(*ssa.Const); ok && kx.Value != nil && ke.Value != nil && kx.Int64() == ke.Int64() {
					same = true
				}
			}
			if !same {
				guarded = false
				break
			}
			if bound == nil {
				bound = cmp.Y
			} else if bound != cmp.Y {
				guarded = false
				break
			}
		}
		if guarded && bound != nil {
			if bv, ok := c.vals[bound]; ok {
				bn := fmt.Sprintf("autoB%d_%s", li.ordinal, pname)
				c.lets[bn] = bv
				out = append(out, Clause{Kind: "invariant", Loop: li.ordinal, Label: "auto", Props: props,
					Text: fmt.Sprintf("%s < %s", pname, bn), Pos: "auto"})
			}
		}
	}
	c.autoInvs[li.ordinal] = out
	return out
}

// execBlock symbolically executes one basic block.
func (c *fnCtx) execBlock(b *ssa.BasicBlock, st *State) {
	for _, in := range b.Instrs {
		switch in := in.(type) {
		case *ssa.Phi:
			continue // handled at merge
		case *ssa.DebugRef:
			continue
		case *ssa.If:
			cond := c.val(st, in.Cond)
			c.out[b] = st
			c.setEdge(b, b.Succs[0], st, cond.S)
			c.setEdge(b, b.Succs[1], st, sNot(cond.S))
			return
		case *ssa.Jump:
			c.out[b] = st
			c.setEdge(b, b.Succs[0], st, "true")
			return
		case *ssa.Return:
			c.fireAnchors(st, b, in)
			var rs []SymVal
			for _, r := range in.Results {
				rs = append(rs, c.val(st, r))
			}
			c.rets = append(c.rets, retSite{st: st.clone(), results: rs, pos: in.Pos()})
			c.out[b] = st
			return
		case *ssa.Panic:
			c.fireAnchors(st, b, in)
			if c.checkPanics {
				c.oblige(st, "panic", "false", "explicit panic unreachable", c.safetyProps(), in.Pos())
			}
			pst := st.clone()
			c.runDefers(pst, in.Pos())
			c.rets = append(c.rets, retSite{st: pst, isPanic: true, pos: in.Pos()})
			c.out[b] = nil
			return
		default:
			c.fireAnchors(st, b, in)
			c.execInstr(st, in)
		}
	}
	c.out[b] = st
}

// fireAnchors evaluates snap/assert/assume clauses anchored at the source line of in.
func (c *fnCtx) fireAnchors(st *State, b *ssa.BasicBlock, in ssa.Instruction) {
	if c.con == nil || len(c.con.Asserts) == 0 {
		return
	}
	line := ""
	if in.Pos().IsValid() {
		line = c.sourceLine(in.Pos())
	} else if _, isRet := in.(*ssa.Return); isRet {
		line = "}" // the implicit return at the end of the function body
	}
	if line == "" {
		return
	}
	for i := range c.con.Asserts {
		a := &c.con.Asserts[i]
		if a.Anchor == "" || c.fired[i] {
			continue
		}
		pat, occ := a.Anchor, 1
		if k := strings.LastIndex(pat, "/#"); k >= 0 {
			fmt.Sscanf(pat[k+2:], "%d", &occ)
			pat = pat[:k]
		}
		re, err := regexp.Compile(pat)
		if err != nil {
			c.abort("%s: bad anchor: %v", a.Pos, err)
		}
		if !re.MatchString(line) {
			continue
		}
		// n-th distinct matching source line
		ln := -1
		if in.Pos().IsValid() {
			ln = c.g.prog.Fset.Position(in.Pos()).Line
		}
		seen := c.anchorLines[i]
		found := false
		for _, l := range seen {
			if l == ln {
				found = true
			}
		}
		if !found {
			c.anchorLines[i] = append(c.anchorLines[i], ln)
		}
		if len(c.anchorLines[i]) != occ || found {
			continue
		}
		c.fired[i] = true
		env := c.newEnvAt(st, b)
		env.atEnd = true
		env.upTo = in
		switch a.Kind {
		case "snap":
			k := strings.Index(a.Text, "=")
			name := strings.TrimSpace(a.Text[:k])
			v, err := env.evalText(strings.TrimSpace(a.Text[k+1:]))
			if err != nil {
				c.abort("%s: snap: %v", a.Pos, err)
			}
			c.lets[name] = c.nameVal(v, "snap_"+name)
		case "assert":
			t, err := env.evalBool(a.Text)
			if err != nil {
				c.abort("%s: assert: %v", a.Pos, err)
			}
			kind := "assert"
			if a.Label != "" {
				kind = "assert:" + a.Label
			}
			// vacuity guard: the anchored point must be reachable under the assumptions made so far
			rk := "reach"
			if a.Label != "" {
				rk = "reach:" + a.Label
			}
			c.obls = append(c.obls, &Obligation{Name: c.oblName(rk), Fn: c.fnName, Kind: "reach", Props: c.propsFor(a.Props),
				Clause: "the point of assert " + a.Label + " is reachable", Pos: c.posStr(in.Pos()), Backend: "smt", declLen: c.sb.Len(), extra: st.cur, Cover: true})
			c.oblige(st, kind, t, a.Text, c.propsFor(a.Props), in.Pos())
		case "apply":
			// apply /anchor/ lemma(args): assume an instance of a lemma that is proved on its own
			ex, err := parser.ParseExpr(a.Text)
			if err != nil {
				c.abort("%s: apply: %v", a.Pos, err)
			}
			call, ok := ex.(*ast.CallExpr)
			if !ok {
				c.abort("%s: apply needs lemma(args)", a.Pos)
			}
			name := call.Fun.(*ast.Ident).Name
			var ld *PkgDecl
			for i := range c.g.cs.Decls {
				d := &c.g.cs.Decls[i]
				if d.Kind == "lemma" && (strings.HasPrefix(d.Text, name+"(") || strings.HasPrefix(d.Text, "bv "+name+"(")) {
					ld = d
				}
			}
			if ld == nil {
				c.abort("%s: apply: no lemma %s", a.Pos, name)
			}
			text := strings.TrimPrefix(ld.Text, "bv ")
			k := strings.Index(text, "):")
			sf, err := parseSpecFn(text[:k+1]+" bool", ld.Pkg, ld.Pos)
			if err != nil || len(sf.Params) != len(call.Args) {
				c.abort("%s: apply %s: bad arguments", a.Pos, name)
			}
			le := c.newEnv(st, c.entry)
			le.calleePkg = ld.Pkg
			for i, p := range sf.Params {
				v, err := env.eval(call.Args[i])
				if err != nil {
					c.abort("%s: apply %s: %v", a.Pos, name, err)
				}
				le.vars[p.Name] = v
			}
			t, err := le.evalBool(strings.TrimSpace(text[k+2:]))
			if err != nil {
				c.abort("%s: apply %s: %v", a.Pos, name, err)
			}
			c.assume(st, t)
		case "assume":
			t, err := env.evalBool(a.Text)
			if err != nil {
				c.abort("%s: assume: %v", a.Pos, err)
			}
			c.assume(st, t)
			c.note("assume at /%s/: %s", a.Anchor, a.Text)
		}
	}
}

func (c *fnCtx) sourceLine(p token.Pos) string {
	pp := c.g.prog.Fset.Position(p)
	lines, ok := c.g.fileLines[pp.Filename]
	if !ok {
		b, err := os.ReadFile(pp.Filename)
		if err == nil {
			lines = strings.Split(string(b), "\n")
		}
		c.g.fileLines[pp.Filename] = lines
	}
	if pp.Line >= 1 && pp.Line <= len(lines) {
		return lines[pp.Line-1]
	}
	return ""
}

func (c *fnCtx) setEdge(from, to *ssa.BasicBlock, st *State, cond string) {
	ec := c.define("edge", "Bool", sAnd(st.cur, cond))
	if c.isBackEdge(from, to) {
		c.checkBackEdge(from, to, st, ec)
		return
	}
	key := [2]int{from.Index, to.Index}
	if old, ok := c.edge[key]; ok {
		c.edge[key] = sOr(old, ec)
	} else {
		c.edge[key] = ec
	}
}

// checkBackEdge emits inv-preserve obligations.
func (c *fnCtx) checkBackEdge(from, to *ssa.BasicBlock, st *State, ec string) {
	li := c.loopOf[to]
	if li == nil {
		return
	}
	invs := c.invariantsFor(li)
	// bodyensures: facts about the iteration that just finished (header phis keep their header values)
	if c.con != nil {
		for _, be := range c.con.BodyEnsures[li.ordinal] {
			bst := st.clone()
			bst.cur = ec
			env := c.newEnvAt(bst, from)
			env.atEnd = true
			env.hdr = to
			if li.headSt != nil {
				env.old = li.headSt // old(e): value at the start of this iteration
			}
			t, err := env.evalBool(be.Text)
			if err != nil {
				c.abort("%s: bodyensures: %v", be.Pos, err)
			}
			c.oblige(bst, fmt.Sprintf("body:%d", li.ordinal), t, be.Text, be.Props, to.Instrs[0].Pos())
		}
	}
	// frame kept across one iteration
	if len(li.frameComps) > 0 {
		_, precise := c.modSpec()
		for _, m := range li.frameComps {
			srt := c.compSort(m)
			h0 := c.comp(c.entry, m, srt)
			hb := c.comp(st, m, srt)
			if hb == h0 {
				continue
			}
			x := c.fresh("fx")
			c.declare(x, "Ref")
			bst := st.clone()
			bst.cur = ec
			c.oblige(bst, fmt.Sprintf("frame-inv:%d:%s", li.ordinal, m), sImp(c.frameCond(m, x, precise), sEq(app("select", hb, x), app("select", h0, x))),
				"the loop body changes "+m+" only where the modifies clause allows", c.propsFor(nil), to.Instrs[0].Pos())
		}
	}
	// automatic ghost-balance candidates
	if len(li.autoGhost) > 0 {
		var ks []string
		for k := range li.autoGhost {
			ks = append(ks, k)
		}
		sort.Strings(ks)
		for _, gk := range ks {
			cur, ok := st.ghost[gk]
			if !ok {
				cur = c.ghostEntry(gk)
			}
			bst := st.clone()
			bst.cur = ec
			c.oblige(bst, fmt.Sprintf("iter-balance:loop%d", li.ordinal), sEq(cur, li.autoGhost[gk]),
				"each loop iteration releases the iterators it acquires ("+gk+" unchanged across one iteration)", []string{"C06"}, to.Instrs[0].Pos())
		}
	}
	if len(invs) == 0 {
		return
	}
	// bind phis to the values flowing along the back edge
	saved := map[*ssa.Phi]SymVal{}
	predIdx := -1
	for i, p := range to.Preds {
		if p == from {
			predIdx = i
		}
	}
	bst := st.clone()
	bst.cur = ec
	for _, in := range to.Instrs {
		phi, ok := in.(*ssa.Phi)
		if !ok {
			break
		}
		saved[phi] = c.vals[phi]
	}
	newVals := map[*ssa.Phi]SymVal{}
	for phi := range saved {
		newVals[phi] = c.coerceNil(c.val(bst, phi.Edges[predIdx]), phi.Type())
	}
	for phi, v := range newVals {
		c.vals[phi] = v
	}
	for _, inv := range invs {
		env := c.newEnvAt(bst, to)
		t, err := env.evalBool(inv.Text)
		if err != nil {
			c.abort("%s: invariant: %v", inv.Pos, err)
		}
		c.oblige(bst, invKind("inv-preserve", li.ordinal, inv.Label), t, inv.Text, inv.Props, to.Instrs[0].Pos())
	}
	for phi, v := range saved {
		c.vals[phi] = v
	}
}

// finish emits postcondition obligations.
func (c *fnCtx) finish() {
	if c.con != nil {
		for i, a := range c.con.Asserts {
			if a.Anchor != "" && !c.fired[i] {
				c.obls = append(c.obls, &Obligation{Name: c.oblName("anchor-binding"), Fn: c.fnName, Kind: "contract-binding", Props: c.propsFor(a.Props),
					Clause: a.Text, Pos: a.Pos, Backend: "static", Static: "no statement of the function matches the anchor /" + a.Anchor + "/"})
			}
		}
	}
	c.balanceObligations()
	if c.con == nil {
		return
	}
	var normal []retSite
	for _, r := range c.rets {
		if !r.isPanic {
			normal = append(normal, r)
		}
	}
	var posts []*Obligation
	var postClauses []Clause
	for _, e := range c.con.Ensures {
		if (c.con.IfaceKey != "" && strings.Contains(e.Text, "g_")) || e.Label == "ghost" {
			continue // ghost bookkeeping is definitional (the call itself is the event)
		}
		kind := "post"
		if e.Label != "" {
			kind = "post:" + e.Label
		}
		for _, r := range normal {
			env := c.newEnv(r.st, c.entry)
			c.bindResults(env, r.results)
			t, err := env.evalBool(e.Text)
			if err != nil {
				c.abort("%s: ensures: %v", e.Pos, err)
			}
			o := &Obligation{Name: c.oblName(kind), Fn: c.fnName, Kind: "post", Props: c.propsFor(e.Props), Clause: e.Text,
				Pos: c.posStr(r.pos), Backend: "smt", declLen: c.sb.Len(), cur: r.st.cur, goal: t}
			c.obls = append(c.obls, o)
			posts = append(posts, o)
			postClauses = append(postClauses, e)
		}
	}
	// frame: everything outside the modifies clause is unchanged at objects that existed on entry
	if c.con.HasMod && !c.con.ModAll {
		c.frameObligations(normal)
	}
	// replay formulas: the clause over the parameter constants and fresh result constants
	for i, o := range posts {
		n0 := c.sb.Len()
		env := c.newEnv(c.entry, c.entry)
		res := c.fn.Signature.Results()
		var rs []SymVal
		var consts [][2]string
		for j := 0; j < res.Len(); j++ {
			v := c.freshVal(c.entry.clone(), res.At(j).Type(), "replayres")
			rs = append(rs, v)
			if fullTypeKey(res.At(j).Type()) == "go.starlark.net/starlark.Int" && c.specFnDeclared["spec!val"] {
				// an Int result is observed through its mathematical value
				consts = append(consts, [2]string{app("spec!val", flatten(v)[0].S), "intval"})
				continue
			}
			for _, f := range flatten(v) {
				consts = append(consts, [2]string{f.S, fmt.Sprint(int(f.K))})
			}
		}
		c.bindResults(env, rs)
		t, err := env.evalBool(postClauses[i].Text)
		if err == nil {
			_ = n0
			o.replayTail = fmt.Sprintf("(assert (not %s))\n", t)
			o.ResultConsts = consts
		}
	}
	// cover: some normal return is reachable
	if len(normal) > 0 && len(c.con.Ensures) > 0 {
		var rs []string
		for _, r := range normal {
			rs = append(rs, r.st.cur)
		}
		o := &Obligation{Name: c.oblName("ret-sat"), Fn: c.fnName, Kind: "ret-sat", Props: c.propsFor(nil), Clause: "some return reachable",
			Backend: "smt", declLen: c.sb.Len(), extra: sOr(rs...), Cover: true}
		c.obls = append(c.obls, o)
	}
}

func (c *fnCtx) resultNames() []string {
	if c.con != nil && len(c.con.Results) > 0 {
		return c.con.Results
	}
	res := c.fn.Signature.Results()
	var names []string
	for i := 0; i < res.Len(); i++ {
		n := res.At(i).Name()
		if n == "" || n == "_" {
			if res.Len() == 1 {
				n = "result"
				if _, isParam := c.paramVals["result"]; isParam {
					n = "ret"
				}
			} else {
				n = fmt.Sprintf("result%d", i)
			}
		}
		names = append(names, n)
	}
	return names
}

func (c *fnCtx) bindResults(env *Env, rs []SymVal) {
	names := c.resultNames()
	res := c.fn.Signature.Results()
	for i, r := range rs {
		if i < len(names) {
			r = c.coerceNil(r, res.At(i).Type())
			if r.T == nil {
				r.T = res.At(i).Type()
			}
			env.vars[names[i]] = r
			if len(rs) == 1 {
				if _, isParam := c.paramVals["result"]; !isParam {
					env.vars["result"] = r
				}
			} else {
				env.vars[fmt.Sprintf("result%d", i)] = r
			}
			// the type-based alias (e.g. "err" for a trailing unnamed error)
			if i == len(rs)-1 && isErrorType(res.At(i).Type()) {
				if _, ok := env.vars["err"]; !ok {
					env.vars["err"] = r
				}
			}
		}
	}
}

func isErrorType(t types.Type) bool {
	n, ok := t.(*types.Named)
	return ok && n.Obj().Pkg() == nil && n.Obj().Name() == "error"
}

// collectDebug indexes DebugRef instructions by identifier name.
func (c *fnCtx) collectDebug() {
	for _, b := range c.fn.Blocks {
		for i, in := range b.Instrs {
			if d, ok := in.(*ssa.DebugRef); ok {
				if obj := d.Object(); obj != nil {
					if v, ok := obj.(*types.Var); ok && v.IsField() {
						continue // a field selector, not a variable
					}
					if _, isVar := obj.(*types.Var); !isVar {
						continue
					}
					c.dbg[obj.Name()] = append(c.dbg[obj.Name()], dbgRef{d.X, d.IsAddr, b, i, obj})
				}
			}
		}
	}
}

// lookupVar resolves a source-level variable name at block b (for invariants).
func (c *fnCtx) lookupVar(st *State, name string, at *ssa.BasicBlock) (SymVal, bool) {
	return c.lookupVarX(st, name, at, false, nil)
}

func (c *fnCtx) lookupVarX(st *State, name string, at *ssa.BasicBlock, atEnd bool, hdr *ssa.BasicBlock) (SymVal, bool) {
	return c.lookupVarY(st, name, at, atEnd, hdr, nil)
}

func (c *fnCtx) lookupVarY(st *State, name string, at *ssa.BasicBlock, atEnd bool, hdr *ssa.BasicBlock, upTo ssa.Instruction) (SymVal, bool) {
	// identifiers are resolved as Go would at the anchor: a variable whose scope does not
	// contain the anchor position (an inner, shadowing declaration) is not a candidate
	inScope := func(d *dbgRef) bool {
		if upTo == nil || !upTo.Pos().IsValid() || d.obj == nil || d.obj.Parent() == nil {
			return true
		}
		return d.obj.Parent().Contains(upTo.Pos())
	}
	if at != nil && upTo != nil {
		// a memory-resident variable in scope never has phis: a phi of the same name belongs to a
		// shadowing declaration
		for i := range c.dbg[name] {
			d := &c.dbg[name][i]
			if !inScope(d) || !d.isAddr || upTo == nil {
				continue
			}
			if al, ok := d.v.(*ssa.Alloc); ok {
				if _, defined := c.vals[al]; defined && (al.Block() == at || al.Block().Dominates(at)) {
					locs, t := c.addrLocs(st, al)
					return c.loadLocs(st, locs, t), true
				}
			}
		}
	}
	if hdr != nil {
		for _, in := range hdr.Instrs {
			phi, ok := in.(*ssa.Phi)
			if !ok {
				break
			}
			if phi.Comment == name || strings.ReplaceAll(phi.Comment, ".", "_") == name {
				return c.vals[phi], true
			}
		}
	}
	if at != nil {
		// phi at this header
		for _, in := range at.Instrs {
			phi, ok := in.(*ssa.Phi)
			if !ok {
				break
			}
			if phi.Comment == name || strings.ReplaceAll(phi.Comment, ".", "_") == name {
				return c.vals[phi], true
			}
		}
	}
	if v, ok := c.lets[name]; ok {
		return v, true
	}
	if v, ok := c.paramVals[name]; ok {
		// a parameter that is reassigned is a phi (handled above) or an alloc (below)
		if at == nil {
			return v, true
		}
		if _, hasDbg := c.dbg[name]; !hasDbg {
			return v, true
		}
	}
	if at != nil {
		var best *dbgRef
		for i := range c.dbg[name] {
			d := &c.dbg[name][i]
			if !inScope(d) {
				continue
			}
			if d.blk == at && !atEnd {
				continue
			}
			if d.blk == at && upTo != nil {
				// only references that precede the anchor
				lim := -1
				for k, ins := range at.Instrs {
					if ins == upTo {
						lim = k
					}
				}
				if lim >= 0 && d.idx >= lim {
					continue
				}
			}
			if d.blk != at && !d.blk.Dominates(at) {
				continue
			}
			if best == nil || best.blk.Dominates(d.blk) && (best.blk != d.blk || best.idx < d.idx) {
				best = d
			}
		}
		// a phi for this variable in the closest dominating block (merge of earlier branches)
		{
			var bestPhi *ssa.Phi
			for _, b := range c.fn.Blocks {
				if b == at && hdr == nil {
					// header phis were handled above
				}
				if b != at && !b.Dominates(at) {
					continue
				}
				for _, in := range b.Instrs {
					phi, ok := in.(*ssa.Phi)
					if !ok {
						break
					}
					if phi.Comment == name {
						if _, defined := c.vals[phi]; defined {
							if bestPhi == nil || bestPhi.Block().Dominates(phi.Block()) {
								bestPhi = phi
							}
						}
					}
				}
			}
			if bestPhi != nil {
				// prefer the phi unless a later plain definition dominates the point
				later := false
				for i := range c.dbg[name] {
					d := &c.dbg[name][i]
					if d.isAddr {
						continue
					}
					if (d.blk == at && atEnd || d.blk != at && d.blk.Dominates(at)) && bestPhi.Block().Dominates(d.blk) && d.blk != bestPhi.Block() {
						if _, isPhi := d.v.(*ssa.Phi); !isPhi && d.v != ssa.Value(bestPhi) {
							later = true
						}
					}
				}
				if !later {
					return c.vals[bestPhi], true
				}
			}
		}
		// a variable that lives in memory (address-taken) is always read through its cell
		for i := range c.dbg[name] {
			d := &c.dbg[name][i]
			if !inScope(d) {
				continue
			}
			if d.isAddr {
				if al, ok := d.v.(*ssa.Alloc); ok {
					if _, defined := c.vals[al]; defined && (al.Block() == at || al.Block().Dominates(at)) {
						locs, t := c.addrLocs(st, al)
						return c.loadLocs(st, locs, t), true
					}
				}
			}
		}
		if best != nil {
			if _, defined := c.vals[best.v]; defined || isConstLike(best.v) {
				if best.isAddr {
					locs, t := c.addrLocs(st, best.v)
					return c.loadLocs(st, locs, t), true
				}
				return c.val(st, best.v), true
			}
		}
	}
	if v, ok := c.paramVals[name]; ok {
		return v, true
	}
	return SymVal{}, false
}

func isConstLike(v ssa.Value) bool {
	switch v.(type) {
	case *ssa.Const, *ssa.Global, *ssa.Function, *ssa.Parameter:
		return true
	}
	return false
}

// frameObligations checks the body against its modifies clause: for every heap
// component the function (or a callee) may have written, every location that
// existed on entry and is not named by the clause holds its entry value.
// modSpec resolves the function's modifies clause: components that may change anywhere
// (whole) and components that may change only at given references (precise).
func (c *fnCtx) modSpec() (whole map[string]bool, precise map[string][]string) {
	if c.modWhole != nil {
		return c.modWhole, c.modPrecise
	}
	ci := calleeInfo{key: c.g.funcKey[c.fn], fn: c.fn, con: c.con, sig: c.fn.Signature}
	for _, p := range c.fn.Params {
		ci.names = append(ci.names, p.Name())
		ci.ptypes = append(ci.ptypes, p.Type())
	}
	whole = map[string]bool{}
	precise = map[string][]string{}
	env := c.newEnv(c.entry, c.entry)
	for _, m := range c.con.Modifies {
		if strings.HasPrefix(m, "g_") {
			continue
		}
		done := false
		if strings.HasPrefix(m, "*") {
			if root, ok := c.paramVals[m[1:]]; ok && root.K == KRef {
				if pt, ok := root.T.Underlying().(*types.Pointer); ok {
					for _, l := range c.leafLocs(root.S, pt.Elem()) {
						precise[l.comp] = append(precise[l.comp], l.ref)
					}
					done = true
				}
			}
		} else if !strings.HasSuffix(m, "[*]") && !strings.HasPrefix(m, "$mem:") && !strings.HasPrefix(m, "$ghost:") {
			parts := strings.Split(m, ".")
			if root, ok := c.paramVals[parts[0]]; ok && len(parts) >= 2 {
				if locs, ok := env.selectorLocs(root, parts[1:]); ok {
					for _, l := range locs {
						precise[l.comp] = append(precise[l.comp], l.ref)
					}
					done = true
				}
			}
		}
		if !done {
			for _, comp := range c.modItemComps(ci, m) {
				whole[comp] = true
			}
		}
	}
	c.modWhole, c.modPrecise = whole, precise
	return
}

// frameCond: r existed on entry and is not one of the places comp may change.
func (c *fnCtx) frameCond(comp, r string, precise map[string][]string) string {
	pre := []string{app("<=", app("rootid", r), "top!0")}
	for _, ref := range precise[comp] {
		pre = append(pre, sNot(sEq(r, ref)))
	}
	return sAnd(pre...)
}

func (c *fnCtx) frameObligations(normal []retSite) {
	ci := calleeInfo{key: c.g.funcKey[c.fn], fn: c.fn, con: c.con, sig: c.fn.Signature}
	for _, p := range c.fn.Params {
		ci.names = append(ci.names, p.Name())
		ci.ptypes = append(ci.ptypes, p.Type())
	}
	whole := map[string]bool{}
	precise := map[string][]string{} // comp -> refs
	env := c.newEnv(c.entry, c.entry)
	for _, m := range c.con.Modifies {
		if strings.HasPrefix(m, "g_") {
			continue
		}
		done := false
		if strings.HasPrefix(m, "*") {
			if root, ok := c.paramVals[m[1:]]; ok && root.K == KRef {
				if pt, ok := root.T.Underlying().(*types.Pointer); ok {
					for _, l := range c.leafLocs(root.S, pt.Elem()) {
						precise[l.comp] = append(precise[l.comp], l.ref)
					}
					done = true
				}
			}
		} else if !strings.HasSuffix(m, "[*]") && !strings.HasPrefix(m, "$mem:") && !strings.HasPrefix(m, "$ghost:") {
			parts := strings.Split(m, ".")
			if root, ok := c.paramVals[parts[0]]; ok && len(parts) >= 2 {
				if locs, ok := env.selectorLocs(root, parts[1:]); ok {
					for _, l := range locs {
						precise[l.comp] = append(precise[l.comp], l.ref)
					}
					done = true
				}
			}
		}
		if !done {
			for _, comp := range c.modItemComps(ci, m) {
				whole[comp] = true
			}
		}
	}
	for _, gc := range c.con.GhostComps {
		whole[gc] = true
	}
	var comps []string
	for k := range c.comps {
		if !whole[k] {
			comps = append(comps, k)
		}
	}
	sort.Strings(comps)
	if len(comps) == 0 {
		return
	}
	type sk struct{ comp, x string }
	var sks []sk
	for _, k := range comps {
		x := c.fresh("fx")
		c.declare(x, "Ref")
		sks = append(sks, sk{k, x})
	}
	for _, r := range normal {
		for _, s := range sks {
			srt := c.compSort(s.comp)
			h0 := c.comp(c.entry, s.comp, srt)
			h1 := c.comp(r.st, s.comp, srt)
			if h0 == h1 {
				continue
			}
			pre := []string{app("<=", app("rootid", s.x), "top!0")}
			for _, ref := range precise[s.comp] {
				pre = append(pre, sNot(sEq(s.x, ref)))
			}
			goal := sImp(sAnd(pre...), sEq(app("select", h1, s.x), app("select", h0, s.x)))
			st := r.st.clone()
			c.oblige(st, "frame:"+s.comp, goal, "modifies "+strings.Join(c.con.Modifies, ", ")+": "+s.comp+" is unchanged at every location that existed on entry", c.propsFor(nil), r.pos)
		}
	}
}

// balanceObligations: a function that acquires iterators (ghost g_open changes
// somewhere in its body) and does not hand one out must release them on every
// exit: normal returns and explicit panics (after running deferred calls).
func (c *fnCtx) balanceObligations() {
	touched := false
	for _, r := range c.rets {
		if _, ok := r.st.ghost["g_open"]; ok {
			touched = true
		}
	}
	if !touched || c.returnsIterator() || c.fn.Parent() != nil {
		return // closures take part in their parent's protocol
	}
	if c.con != nil {
		for _, e := range c.con.Ensures {
			if strings.Contains(e.Text, "g_open") {
				return // stated explicitly
			}
		}
		for _, m := range c.con.Modifies {
			if m == "g_open" {
				return
			}
		}
	}
	g0 := c.ghostEntry("g_open")
	for _, r := range c.rets {
		cur, ok := r.st.ghost["g_open"]
		if !ok {
			cur = g0
		}
		kind := "iter-balance"
		if r.isPanic {
			kind = "iter-balance:panic"
		}
		st := r.st.clone()
		c.oblige(st, kind, sEq(cur, g0), "every iterator acquired in this activation is released (Done) on this exit", []string{"C06"}, r.pos)
	}
}

func (c *fnCtx) returnsIterator() bool {
	res := c.fn.Signature.Results()
	for i := 0; i < res.Len(); i++ {
		s := res.At(i).Type().String()
		if strings.Contains(s, "Iterator") || strings.Contains(s, "iter.Seq") {
			return true
		}
	}
	return false
}

// ghostEntry names the (unconstrained) value of a ghost variable at function entry.
func (c *fnCtx) ghostEntry(name string) string {
	n := smtName("ghost0!" + name)
	if !c.compDeclared[n] {
		c.compDeclared[n] = true
		c.declare(n, "Int")
	}
	return n
}

// addrOfVar: the address of a source variable that lives in memory (an escaping Alloc).
func (c *fnCtx) addrOfVar(name string) (string, types.Type, bool) {
	for i := range c.dbg[name] {
		d := &c.dbg[name][i]
		if d.isAddr {
			if al, ok := d.v.(*ssa.Alloc); ok {
				if v, defined := c.vals[al]; defined {
					return v.S, al.Type().Underlying().(*types.Pointer).Elem(), true
				}
			}
		}
	}
	return "", nil, false
}

// invKind names an invariant obligation; a labelled invariant clause gets its own name so that
// a finding about it can be recorded precisely.
func invKind(kind string, ordinal int, label string) string {
	if label != "" {
		return fmt.Sprintf("%s:%d:%s", kind, ordinal, label)
	}
	return fmt.Sprintf("%s:%d", kind, ordinal)
}

// callsPackage reports whether the function under analysis calls a function or method of pkg.
func (c *fnCtx) callsPackage(pkg string) bool {
	for _, b := range c.fn.Blocks {
		for _, in := range b.Instrs {
			ci, ok := in.(ssa.CallInstruction)
			if !ok {
				continue
			}
			cc := ci.Common()
			if cc.IsInvoke() {
				if cc.Method.Pkg() != nil && cc.Method.Pkg().Path() == pkg {
					return true
				}
				continue
			}
			if f, ok := cc.Value.(*ssa.Function); ok && f.Pkg != nil && f.Pkg.Pkg.Path() == pkg {
				return true
			}
		}
	}
	return false
}
