package main

import (
	"regexp"
	"encoding/json"
	"flag"
	"fmt"
	"os"
	"path/filepath"
	"sort"
	"strings"
	"time"

	"golang.org/x/tools/go/packages"
	"golang.org/x/tools/go/ssa"
	"golang.org/x/tools/go/ssa/ssautil"
)

type FnReport struct {
	Fn      string   `json:"fn"`
	Key     string   `json:"key"`
	Props   []string `json:"props"`
	Arith   string   `json:"arith"`
	Trusted bool     `json:"trusted"`
	TrustedWhy string `json:"trusted_why,omitempty"`
	Obls    int      `json:"obligations"`
	Notes   []string `json:"notes,omitempty"`
	Error   string   `json:"error,omitempty"`
	AssumedUsed []string `json:"assumed_used,omitempty"`
	Loops   int      `json:"loops"`
	Instrs  int      `json:"instrs"`
}

type Output struct {
	Obligations []*Obligation `json:"obligations"`
	Functions   []FnReport    `json:"functions"`
	Errors      []string      `json:"errors"`
	ContractFiles []string    `json:"contract_files"`
	LoadSeconds float64       `json:"load_s"`
	GenSeconds  float64       `json:"gen_s"`
	Assumed     []string      `json:"assumed_contracts"`
}

var modulePkgs = []string{"./starlark", "./internal/compile", "./lib/time", "./lib/math", "./lib/json", "./lib/proto", "./starlarkstruct", "./resolve", "./syntax"}

func main() {
	repo := flag.String("repo", "/repo", "repository root")
	assumed := flag.String("assumed", "/verif/assumed", "assumed contracts dir")
	propsF := flag.String("props", "", "comma-separated property ids (empty = all)")
	fnFilter := flag.String("fn", "", "only functions whose key matches this regular expression")
	out := flag.String("out", "", "output JSON file (default stdout)")
	dumpSMT := flag.String("dump", "", "directory to dump .smt2 files")
	knownF := flag.String("known", "", "known_findings.json (carve-outs)")
	sweepAll := flag.Bool("sweepall", false, "discovery: emit the zero-annotation safety sweep (C02) for every module function")
	sweepFile := flag.String("sweep", "/verif/baseline/sweep_claimed.json", "JSON list of function keys whose safety sweep is claimed")
	split := flag.Bool("split", false, "debugging: split conjunctive goals into one obligation per conjunct")
	showMod := flag.String("modset", "", "print the mod-set of functions whose key contains this and exit")
	flag.Parse()

	t0 := time.Now()
	cfg := &packages.Config{Mode: packages.LoadAllSyntax, Dir: *repo, BuildFlags: []string{"-tags=verif"}}
	pkgs, err := packages.Load(cfg, modulePkgs...)
	if err != nil {
		fatal("load: %v", err)
	}
	nerr := 0
	packages.Visit(pkgs, nil, func(p *packages.Package) {
		for _, e := range p.Errors {
			fmt.Fprintln(os.Stderr, "load error:", e)
			nerr++
		}
	})
	if nerr > 0 {
		fatal("packages have errors")
	}
	prog, _ := ssautil.AllPackages(pkgs, ssa.InstantiateGenerics|ssa.GlobalDebug)
	prog.Build()
	pkgDirs := map[string]string{}
	for _, p := range pkgs {
		if len(p.GoFiles) > 0 {
			pkgDirs[p.PkgPath] = filepath.Dir(p.GoFiles[0])
		}
	}
	cs, err := loadContracts(*repo, pkgDirs, *assumed)
	if err != nil {
		fatal("contracts: %v", err)
	}
	g := newGlobal(prog, pkgs, cs)
	g.computeModSets()
	loadS := time.Since(t0).Seconds()
	if *showMod != "" {
		for fn, k := range g.funcKey {
			if strings.Contains(k, *showMod) {
				ms := g.modSetOf(fn)
				var cs []string
				for c := range ms.comps {
					cs = append(cs, c)
				}
				sort.Strings(cs)
				fmt.Printf("%s: all=%v (%s) %v\n", k, ms.all, ms.why, cs)
			}
		}
		return
	}

	want := map[string]bool{}
	for _, p := range strings.Split(*propsF, ",") {
		if p = strings.TrimSpace(p); p != "" {
			want[p] = true
		}
	}
	known := loadKnown(*knownF)
	var output Output
	output.ContractFiles = cs.Files
	output.LoadSeconds = loadS
	t1 := time.Now()

	var keys []string
	for k := range cs.Funcs {
		keys = append(keys, k)
	}
	sort.Strings(keys)
	for _, k := range keys {
		con := cs.Funcs[k]
		if con.Assumed {
			output.Assumed = append(output.Assumed, k)
			continue
		}
		fn := g.keyFunc[k]
		if fn == nil {
			// interface method contract?
			if g.isIfaceMethod(k) {
				continue
			}
			output.Errors = append(output.Errors, fmt.Sprintf("contract-binding: %s (%s): no such function", k, con.Pos))
			output.Obligations = append(output.Obligations, &Obligation{Name: shortFnName(k) + "/contract-binding", Fn: shortFnName(k), Kind: "contract-binding",
				Props: con.Props, Backend: "static", Static: "function not found", Pos: con.Pos})
			continue
		}
		if *fnFilter != "" && !fnMatch(k, *fnFilter) {
			continue
		}
		rep := FnReport{Fn: shortFnName(k), Key: k, Props: con.allProps(), Arith: con.Arith, Trusted: con.Trusted, TrustedWhy: con.TrustedWhy}
		output.Obligations = append(output.Obligations, &Obligation{Name: shortFnName(k) + "/contract-binding", Fn: shortFnName(k), Kind: "contract-binding",
			Props: con.allProps(), Backend: "static", Static: "ok", Pos: con.Pos})
		if con.Trusted {
			output.Functions = append(output.Functions, rep)
			continue
		}
		c := newFnCtx(g, fn, con)
		err := c.run()
		for _, b := range fn.Blocks {
			rep.Instrs += len(b.Instrs)
		}
		rep.Loops = len(c.loops)
		rep.Notes = c.notes
		for a := range c.assumedUsed {
			rep.AssumedUsed = append(rep.AssumedUsed, a)
		}
		sort.Strings(rep.AssumedUsed)
		if err != nil {
			rep.Error = err.Error()
			output.Errors = append(output.Errors, fmt.Sprintf("%s: %v", k, err))
			output.Obligations = append(output.Obligations, &Obligation{Name: shortFnName(k) + "/vcgen", Fn: shortFnName(k), Kind: "vcgen",
				Props: con.allProps(), Backend: "static", Static: err.Error(), Pos: con.Pos})
			output.Functions = append(output.Functions, rep)
			continue
		}
		// missing invariants for declared loops that do not exist
		for n := range con.Invariants {
			if n < 1 || n > len(c.loops) {
				output.Obligations = append(output.Obligations, &Obligation{Name: fmt.Sprintf("%s/loop-binding#%d", shortFnName(k), n), Fn: shortFnName(k), Kind: "contract-binding",
					Props: con.allProps(), Backend: "static", Static: fmt.Sprintf("invariant for loop %d but function has %d loops", n, len(c.loops)), Pos: con.Pos})
			}
		}
		prelude := preludeCommon + wrapDefs()
		decls := c.sb.String()
		if *split {
			var nobls []*Obligation
			for _, o := range c.obls {
				parts := splitAnd(o.goal)
				if o.Cover || o.extra != "" || len(parts) < 2 {
					nobls = append(nobls, o)
					continue
				}
				for i, p := range parts {
					cp := *o
					cp.Name = fmt.Sprintf("%s.part%d", o.Name, i+1)
					cp.goal = p
					cp.Clause = p
					nobls = append(nobls, &cp)
				}
			}
			c.obls = nobls
		}
		for _, o := range c.obls {
			if len(want) > 0 && !intersects(o.Props, want) {
				continue
			}
			if o.Backend == "static" {
				output.Obligations = append(output.Obligations, o)
				rep.Obls++
				continue
			}
			var sb strings.Builder
			sb.WriteString(decls[:o.declLen])
			if o.extra != "" {
				fmt.Fprintf(&sb, "(assert %s)\n", o.extra)
			} else {
				fmt.Fprintf(&sb, "(assert %s)\n(assert (not %s))\n", o.cur, o.goal)
			}
			o.SMT = withAxioms(prelude, sb.String())
			if o.extra == "" && !o.Cover {
				if parts := splitGoal(o.goal); len(parts) > 1 {
					for _, pg := range parts {
						sk, body := skolemize(pg)
						o.Parts = append(o.Parts, withAxioms(prelude, decls[:o.declLen]+sk+fmt.Sprintf("(assert %s)\n(assert (not %s))\n", o.cur, body)))
					}
				} else if len(parts) == 1 {
					if sk, body := skolemize(parts[0]); sk != "" {
						o.SMT = withAxioms(prelude, decls[:o.declLen]+sk+fmt.Sprintf("(assert %s)\n(assert (not %s))\n", o.cur, body))
					}
				}
			}
			o.Params = c.params
			o.NResults = fn.Signature.Results().Len()
			if o.replayTail != "" {
				o.ReplaySMT = prelude + decls + o.replayTail
			}
			output.Obligations = append(output.Obligations, o)
			rep.Obls++
			for _, kf := range known {
				if kf.Obligation != o.Name || (kf.Status != "" && kf.Status != "open") {
					continue
				}
				env := c.newEnv(c.entry, c.entry)
				n0 := c.sb.Len()
				t, err := env.evalBool(kf.CarveOut)
				if err != nil {
					output.Errors = append(output.Errors, fmt.Sprintf("known finding %s: carve-out: %v", kf.Obligation, err))
					continue
				}
				var sb2 strings.Builder
				sb2.WriteString(prelude)
				sb2.WriteString(decls[:o.declLen])
				sb2.WriteString(c.sb.String()[n0:])
				fmt.Fprintf(&sb2, "(assert (not %s))\n", t)
				if o.extra != "" {
					fmt.Fprintf(&sb2, "(assert %s)\n", o.extra)
				} else {
					fmt.Fprintf(&sb2, "(assert %s)\n(assert (not %s))\n", o.cur, o.goal)
				}
				o2 := *o
				o2.Parts = nil
				o2.Name = o.Name + "!carved"
				o2.SMT = sb2.String()
				o2.Clause = "under not(" + kf.CarveOut + "): " + o.Clause
				output.Obligations = append(output.Obligations, &o2)
			}
		}
		output.Functions = append(output.Functions, rep)
	}
	// scan mode: functions without a contract that touch protected fields
	{
		var fns []*ssa.Function
		for fn := range g.allFuncs {
			if fn.Blocks == nil || !inModulePkg(pkgOf(fn)) || fn.Synthetic != "" {
				continue
			}
			k := g.funcKey[fn]
			if k == "" || cs.Funcs[k] != nil {
				continue
			}
			if *fnFilter != "" && !fnMatch(k, *fnFilter) {
				continue
			}
			ic := g.inheritedContract(fn)
			if ic != nil && !ic.VerifyImpls {
				ic = nil
			}
			if ic != nil || g.touchesProtected(fn) || g.callsWithObligations(fn) {
				fns = append(fns, fn)
			}
		}
		sort.Slice(fns, func(i, j int) bool { return g.funcKey[fns[i]] < g.funcKey[fns[j]] })
		prelude := preludeCommon + wrapDefs()
		for _, fn := range fns {
			k := g.funcKey[fn]
			var scanCon *FuncContract
			if ic := g.inheritedContract(fn); ic != nil {
				cp := *ic
				if !ic.VerifyImpls {
					// only the interface's preconditions are assumed; nothing about the body is claimed
					cp.Ensures, cp.HasMod, cp.Modifies, cp.ModAll, cp.Pure = nil, false, nil, false, false
				}
				scanCon = &cp
			}
			c := newFnCtx(g, fn, scanCon)
			err := c.run()
			rep := FnReport{Fn: shortFnName(k), Key: k, Arith: "int", Notes: c.notes, Loops: len(c.loops)}
			if scanCon != nil && len(scanCon.Ensures) > 0 {
				rep.Notes = append(rep.Notes, "verified against the interface contract "+scanCon.IfaceKey)
			}
			for _, b := range fn.Blocks {
				rep.Instrs += len(b.Instrs)
			}
			pset := map[string]bool{}
			if err != nil {
				rep.Error = err.Error()
				output.Errors = append(output.Errors, fmt.Sprintf("%s: %v", k, err))
			}
			// vacuity guard: some exit of the function is reachable under all assumptions made
			{
				pall := map[string]bool{}
				for _, o := range c.obls {
					for _, p := range o.Props {
						if p != "*" {
							pall[p] = true
						}
					}
				}
				var ps []string
				for p := range pall {
					ps = append(ps, p)
				}
				sort.Strings(ps)
				for _, o := range c.obls {
					if len(o.Props) == 1 && o.Props[0] == "*" {
						o.Props = ps // automatic invariants serve every property this function has obligations for
					}
				}
			}
			if len(c.rets) > 0 {
				pall := map[string]bool{}
				for _, o := range c.obls {
					for _, p := range o.Props {
						pall[p] = true
					}
				}
				var ps []string
				for p := range pall {
					ps = append(ps, p)
				}
				sort.Strings(ps)
				var rs []string
				for _, r := range c.rets {
					rs = append(rs, r.st.cur)
				}
				if len(ps) > 0 {
					c.obls = append(c.obls, &Obligation{Name: c.oblName("exit-sat"), Fn: c.fnName, Kind: "exit-sat", Props: ps, Clause: "some exit reachable (assumptions not contradictory)",
						Backend: "smt", declLen: c.sb.Len(), extra: sOr(rs...), Cover: true})
				}
			}
			decls := c.sb.String()
			for _, o := range c.obls {
				if len(o.Props) == 0 || (len(want) > 0 && !intersects(o.Props, want)) {
					continue
				}
				var sb strings.Builder
				sb.WriteString(prelude)
				sb.WriteString(decls[:o.declLen])
				if o.extra != "" {
					fmt.Fprintf(&sb, "(assert %s)\n", o.extra)
				} else {
					fmt.Fprintf(&sb, "(assert %s)\n(assert (not %s))\n", o.cur, o.goal)
				}
				o.SMT = sb.String()
				o.Params = c.params
				output.Obligations = append(output.Obligations, o)
				rep.Obls++
				for _, p := range o.Props {
					pset[p] = true
				}
			}
			for p := range pset {
				rep.Props = append(rep.Props, p)
			}
			sort.Strings(rep.Props)
			if rep.Obls > 0 || rep.Error != "" {
				output.Functions = append(output.Functions, rep)
			}
		}
	}
	// zero-annotation safety sweep (C02): no explicit panic reachable, no nil dereference, index,
	// slice, make-size, division or type-assertion failure -- for the claimed functions
	if len(want) == 0 || want["C02"] {
		claimed := map[string]bool{}
		if b, err := os.ReadFile(*sweepFile); err == nil {
			var ks []string
			if json.Unmarshal(b, &ks) == nil {
				for _, k := range ks {
					claimed[k] = true
				}
			}
		}
		var fns []*ssa.Function
		for fn := range g.allFuncs {
			if fn.Blocks == nil || !inModulePkg(pkgOf(fn)) || fn.Synthetic != "" {
				continue
			}
			k := g.funcKey[fn]
			if k == "" || strings.HasSuffix(k, ".init") || strings.Contains(k, "/cmd/") || strings.Contains(k, "starlarktest") || strings.Contains(k, "/repl") {
				continue
			}
			if *fnFilter != "" && !fnMatch(k, *fnFilter) {
				continue
			}
			if *sweepAll || claimed[k] {
				fns = append(fns, fn)
			}
		}
		sort.Slice(fns, func(i, j int) bool { return g.funcKey[fns[i]] < g.funcKey[fns[j]] })
		prelude := preludeCommon + wrapDefs()
		for _, fn := range fns {
			k := g.funcKey[fn]
			var con FuncContract
			if base := g.contractFor(fn); base != nil && !base.Trusted {
				con = *base
				con.Ensures, con.Asserts, con.BodyEnsures = nil, nil, nil // only the safety obligations are wanted here
				con.HasMod, con.ModAll, con.Modifies, con.Pure = false, false, nil, false
			} else if base != nil && base.Trusted {
				continue
			} else {
				con = FuncContract{Pkg: pkgOf(fn).Pkg.Path(), Key: k, Invariants: map[int][]Clause{}, BodyEnsures: map[int][]Clause{}, Arith: "int"}
			}
			con.Sweep = true
			con.NoPanic = true
			con.Props = []string{"C02"}
			c := newFnCtx(g, fn, &con)
			c.sweepOnly = true
			err := c.run()
			rep := FnReport{Fn: shortFnName(k), Key: k, Arith: con.Arith, Props: []string{"C02"}, Notes: c.notes, Loops: len(c.loops)}
			for _, b := range fn.Blocks {
				rep.Instrs += len(b.Instrs)
			}
			if err != nil {
				rep.Error = err.Error()
				output.Obligations = append(output.Obligations, &Obligation{Name: shortFnName(k) + "/sweep-vcgen", Fn: shortFnName(k), Kind: "vcgen",
					Props: []string{"C02"}, Backend: "static", Static: err.Error()})
				output.Functions = append(output.Functions, rep)
				continue
			}
			decls := c.sb.String()
			for _, o := range c.obls {
				switch o.Kind {
				case "nilderef", "bounds", "slice", "makesize", "div0", "typeassert", "panic":
				default:
					continue
				}
				o.Name = strings.Replace(o.Name, "/", "/safe:", 1)
				o.Props = []string{"C02"}
				o.SMT = withAxioms(prelude, decls[:o.declLen]+fmt.Sprintf("(assert %s)\n(assert (not %s))\n", o.cur, o.goal))
				o.Params = c.params
				output.Obligations = append(output.Obligations, o)
				rep.Obls++
			}
			// vacuity: some exit reachable
			if len(c.rets) > 0 && rep.Obls > 0 {
				var rs []string
				for _, r := range c.rets {
					rs = append(rs, r.st.cur)
				}
				output.Obligations = append(output.Obligations, &Obligation{Name: shortFnName(k) + "/safe:exit-sat#1", Fn: shortFnName(k), Kind: "exit-sat", Props: []string{"C02"},
					Clause: "some exit reachable", Backend: "smt", Cover: true, SMT: withAxioms(prelude, decls+fmt.Sprintf("(assert %s)\n", sOr(rs...)))})
			}
			output.Functions = append(output.Functions, rep)
		}
	}
	// lemmas: closed facts about spec functions
	for _, d := range cs.Decls {
		if d.Kind != "lemma" {
			continue
		}
		if len(want) > 0 && !intersects(d.Props, want) {
			continue
		}
		if *fnFilter != "" && !fnMatch("lemma:"+d.Text, *fnFilter) {
			continue
		}
		o, err := g.lemmaObligation(d)
		if err != nil {
			output.Errors = append(output.Errors, fmt.Sprintf("%s: lemma: %v", d.Pos, err))
			output.Obligations = append(output.Obligations, &Obligation{Name: "lemma/" + d.Pos, Fn: "lemma", Kind: "vcgen", Props: d.Props, Backend: "static", Static: err.Error(), Pos: d.Pos})
			continue
		}
		output.Obligations = append(output.Obligations, o)
	}
	if *fnFilter == "" {
		output.Obligations = append(output.Obligations, g.staticObligations(want)...)
	}
	output.GenSeconds = time.Since(t1).Seconds()
	if *dumpSMT != "" {
		os.MkdirAll(*dumpSMT, 0o755)
		for _, o := range output.Obligations {
			if o.SMT != "" {
				n := strings.NewReplacer("/", "_", "#", "_", ":", "_", "*", "_").Replace(o.Name)
				os.WriteFile(filepath.Join(*dumpSMT, n+".smt2"), []byte(o.SMT+"(check-sat)\n"), 0o644)
			}
		}
	}
	enc := json.NewEncoder(os.Stdout)
	if *out != "" {
		f, err := os.Create(*out)
		if err != nil {
			fatal("%v", err)
		}
		defer f.Close()
		enc = json.NewEncoder(f)
	}
	if err := enc.Encode(&output); err != nil {
		fatal("%v", err)
	}
}

type KnownFinding struct {
	Property   string `json:"property"`
	Obligation string `json:"obligation"`
	CarveOut   string `json:"carve_out"`
	Status     string `json:"status"`
}

func loadKnown(path string) []KnownFinding {
	if path == "" {
		return nil
	}
	b, err := os.ReadFile(path)
	if err != nil {
		return nil
	}
	var f struct {
		Findings []KnownFinding `json:"findings"`
	}
	if err := json.Unmarshal(b, &f); err != nil {
		fatal("known findings: %v", err)
	}
	return f.Findings
}

// lemmaObligation: "name(a, b float, n int): expr" (optionally prefixed by "bv ").
func (g *Global) lemmaObligation(d PkgDecl) (*Obligation, error) {
	text := d.Text
	bv := false
	if strings.HasPrefix(text, "bv ") {
		bv = true
		text = strings.TrimSpace(text[3:])
	}
	i := strings.Index(text, "):")
	if i < 0 {
		return nil, fmt.Errorf("lemma syntax: name(params): expr")
	}
	sf, err := parseSpecFn(text[:i+1]+" bool", d.Pkg, d.Pos)
	if err != nil {
		return nil, err
	}
	body := strings.TrimSpace(text[i+2:])
	// any function of the package gives the evaluation context
	var host *ssa.Function
	var names []string
	if sp := g.spkgs[d.Pkg]; sp != nil {
		for n, m := range sp.Members {
			if f, ok := m.(*ssa.Function); ok && f.Blocks != nil {
				names = append(names, n)
			}
		}
		sort.Strings(names)
		if len(names) > 0 {
			host = sp.Members[names[0]].(*ssa.Function)
		}
	}
	if host == nil {
		return nil, fmt.Errorf("no host function in package %s", d.Pkg)
	}
	c := newFnCtx(g, host, nil)
	c.bv = bv
	c.fnName = shortFnName(d.Pkg) + ".lemma:" + sf.Name
	c.declare("cur!0", "Bool")
	c.assertGlobal("cur!0")
	c.declare("top!0", "Int")
	st := &State{cur: "cur!0", heap: map[string]string{}, ghost: map[string]string{}, hbound: map[string]string{}, top: "top!0", baseTop: "top!0"}
	c.entry = st
	env := c.newEnv(st, st)
	for _, p := range sf.Params {
		srt, k := env.specSort(p.Type)
		if srt != "" {
			n := c.fresh("l_" + p.Name)
			c.declare(n, srt)
			env.vars[p.Name] = SymVal{K: k, S: n, T: specIntType(p.Type)}
			continue
		}
		t, err := env.typeExprText(p.Type)
		if err != nil {
			return nil, err
		}
		env.vars[p.Name] = c.freshVal(st, t, "l_"+p.Name)
	}
	t, err := env.evalBool(body)
	if err != nil {
		return nil, err
	}
	smt := preludeCommon + wrapDefs() + c.sb.String() + fmt.Sprintf("(assert %s)\n(assert (not %s))\n", st.cur, t)
	return &Obligation{Name: c.fnName, Fn: c.fnName, Kind: "lemma", Props: d.Props, Clause: body, Pos: d.Pos, Backend: "smt", SMT: smt}, nil
}

// callsWithObligations: fn calls a function whose contract has preconditions, or
// acquires an iterator (ghost g_open), so it carries obligations even without a contract.
func (g *Global) callsWithObligations(fn *ssa.Function) bool {
	for _, b := range fn.Blocks {
		for _, in := range b.Instrs {
			ci, ok := in.(ssa.CallInstruction)
			if !ok {
				continue
			}
			cc := ci.Common()
			var con *FuncContract
			if cc.IsInvoke() {
				_, con = g.ifaceContract(cc.Value.Type(), cc.Method)
			} else {
				var f *ssa.Function
				switch v := cc.Value.(type) {
				case *ssa.Function:
					f = v
				case *ssa.MakeClosure:
					f = v.Fn.(*ssa.Function)
				}
				if f != nil {
					con = g.contractFor(f)
				}
			}
			if con == nil {
				continue
			}
			if len(con.Requires) > 0 {
				return true
			}
			for _, m := range con.Modifies {
				if strings.HasPrefix(m, "g_") {
					return true
				}
			}
		}
	}
	return false
}

// splitGoal splits a goal into conjuncts, distributing a bounded forall over a conjunction.
func splitGoal(g string) []string {
	var out []string
	for _, p := range splitAnd(g) {
		out = append(out, splitForall(p)...)
	}
	return out
}

// skolemize turns a universally quantified goal into a goal about a fresh constant
// (the solvers are far better at that form than at a negated quantifier).
func skolemize(g string) (decl string, body string) {
	body = g
	for n := 0; n < 4 && strings.HasPrefix(body, "(forall (("); n++ {
		k := strings.Index(body, ")) ")
		if k < 0 {
			break
		}
		// one or more "(name Sort)" binders: "x S) (y T"
		var binders [][2]string
		okb := true
		for _, b := range strings.Split(body[len("(forall (("):k], ") (") {
			fs := strings.Fields(b)
			if len(fs) < 2 {
				okb = false
				break
			}
			binders = append(binders, [2]string{fs[0], strings.Join(fs[1:], " ")})
		}
		if !okb || len(binders) == 0 {
			break
		}
		inner := body[k+3 : len(body)-1]
		if strings.HasPrefix(inner, "(! ") {
			t := inner[3:]
			d, end := 0, -1
			for i := 0; i < len(t); i++ {
				if t[i] == '(' {
					d++
				} else if t[i] == ')' {
					d--
					if d == 0 {
						end = i + 1
						break
					}
				}
			}
			if end < 0 {
				break
			}
			inner = t[:end]
		}
		body = inner
		for _, b := range binders {
			sk := "sk!" + strings.ReplaceAll(b[0], "!", "_")
			decl += fmt.Sprintf("(declare-const %s %s)\n", sk, b[1])
			body = replaceToken(body, b[0], sk)
		}
	}
	return decl, body
}

// replaceToken replaces whole-token occurrences of old (delimited by spaces or parentheses).
func replaceToken(s, old, new string) string {
	var sb strings.Builder
	inBar := false
	for i := 0; i < len(s); {
		if s[i] == '|' {
			inBar = !inBar
		}
		if !inBar && strings.HasPrefix(s[i:], old) {
			prevOK := i == 0 || s[i-1] == ' ' || s[i-1] == '('
			j := i + len(old)
			nextOK := j >= len(s) || s[j] == ' ' || s[j] == ')'
			if prevOK && nextOK {
				sb.WriteString(new)
				i = j
				continue
			}
		}
		sb.WriteByte(s[i])
		i++
	}
	return sb.String()
}

// splitForall: (forall ((x S)) (! (=> rng (and A B)) pats)) -> two foralls (patterns recomputed).
func splitForall(s string) []string {
	if !strings.HasPrefix(s, "(forall ((") {
		return []string{s}
	}
	// binder
	k := strings.Index(s, ")) ")
	if k < 0 {
		return []string{s}
	}
	binder := s[len("(forall (("):k] // "x S"
	bn := strings.Fields(binder)[0]
	body := s[k+3 : len(s)-1]
	if strings.HasPrefix(body, "(! ") {
		// strip annotation: find end of the first term
		inner := body[3:]
		d, end := 0, -1
		for i := 0; i < len(inner); i++ {
			if inner[i] == '(' {
				d++
			} else if inner[i] == ')' {
				d--
				if d == 0 {
					end = i + 1
					break
				}
			}
		}
		if end < 0 {
			return []string{s}
		}
		body = inner[:end]
	}
	if !strings.HasPrefix(body, "(=> ") {
		return []string{s}
	}
	args := topArgs(body[4 : len(body)-1])
	if len(args) != 2 {
		return []string{s}
	}
	parts := splitAnd(args[1])
	if len(parts) < 2 {
		return []string{s}
	}
	var out []string
	for _, p := range parts {
		imp := "(=> " + args[0] + " " + p + ")"
		pats := selectPatterns(p, bn)
		if len(pats) > 0 {
			ps := ""
			for _, q := range pats {
				ps += " :pattern (" + q + ")"
			}
			out = append(out, "(forall (("+binder+")) (! "+imp+ps+"))")
		} else {
			out = append(out, "(forall (("+binder+")) "+imp+")")
		}
	}
	return out
}

// topArgs splits a space-separated list of terms at depth 0.
func topArgs(body string) []string {
	var parts []string
	depth, start := 0, 0
	inBar := false
	for i := 0; i < len(body); i++ {
		ch := body[i]
		if ch == '|' {
			inBar = !inBar
		}
		if inBar {
			continue
		}
		switch ch {
		case '(':
			depth++
		case ')':
			depth--
		case ' ':
			if depth == 0 {
				if i > start {
					parts = append(parts, body[start:i])
				}
				start = i + 1
			}
		}
	}
	if start < len(body) {
		parts = append(parts, body[start:])
	}
	return parts
}

// splitAnd splits "(and a b c)" recursively into its top-level conjuncts.
func splitAnd(s string) []string {
	if !strings.HasPrefix(s, "(and ") || !strings.HasSuffix(s, ")") {
		return []string{s}
	}
	body := s[5 : len(s)-1]
	var parts []string
	depth, start := 0, 0
	inBar := false
	for i := 0; i < len(body); i++ {
		ch := body[i]
		if ch == '|' {
			inBar = !inBar
		}
		if inBar {
			continue
		}
		switch ch {
		case '(':
			depth++
		case ')':
			depth--
		case ' ':
			if depth == 0 {
				if i > start {
					parts = append(parts, body[start:i])
				}
				start = i + 1
			}
		}
	}
	if start < len(body) {
		parts = append(parts, body[start:])
	}
	var out []string
	for _, p := range parts {
		out = append(out, splitAnd(p)...)
	}
	return out
}

func pkgOf(fn *ssa.Function) *ssa.Package {
	for fn != nil {
		if fn.Pkg != nil {
			return fn.Pkg
		}
		fn = fn.Parent()
	}
	return nil
}

func intersects(ps []string, want map[string]bool) bool {
	for _, p := range ps {
		if want[p] {
			return true
		}
	}
	return false
}

func (con *FuncContract) allProps() []string {
	set := map[string]bool{}
	for _, p := range con.Props {
		set[p] = true
	}
	add := func(cs []Clause) {
		for _, c := range cs {
			for _, p := range c.Props {
				set[p] = true
			}
		}
	}
	add(con.Requires)
	add(con.Ensures)
	add(con.Asserts)
	for _, inv := range con.Invariants {
		add(inv)
	}
	if con.Sweep {
		set["C02"] = true
	}
	var out []string
	for p := range set {
		out = append(out, p)
	}
	sort.Strings(out)
	return out
}

func (con *FuncContract) touches(want map[string]bool) bool {
	return intersects(con.allProps(), want)
}

func (g *Global) isIfaceMethod(key string) bool {
	i := strings.LastIndex(key, ".")
	if i < 0 {
		return false
	}
	j := strings.LastIndex(key[:i], ".")
	if j < 0 {
		return false
	}
	pkg, tn := key[:j], key[j+1:i]
	if pkg == "builtin" {
		return true
	}
	if sp := g.spkgs[pkg]; sp != nil {
		if o := sp.Pkg.Scope().Lookup(tn); o != nil {
			_, isI := o.Type().Underlying().(interface{ NumMethods() int })
			return isI
		}
	}
	return false
}

func fatal(format string, args ...any) {
	fmt.Fprintf(os.Stderr, "vcgen: "+format+"\n", args...)
	os.Exit(2)
}

var fnRe = map[string]*regexp.Regexp{}

// fnMatch: -fn is a regular expression (a plain substring still works).
func fnMatch(k, pat string) bool {
	re, ok := fnRe[pat]
	if !ok {
		re, _ = regexp.Compile(pat)
		fnRe[pat] = re
	}
	if re == nil {
		return strings.Contains(k, pat)
	}
	return re.MatchString(k)
}
