package main

import (
	"fmt"
	"go/constant"
	"go/token"
	"go/types"
	"math"
	"math/big"
	"sort"
	"strings"

	"golang.org/x/tools/go/ssa"
)

// ---------------------------------------------------------------------------
// Obligations

type ParamInfo struct {
	Name   string   `json:"name"`
	GoType string   `json:"gotype"`
	Leaves []string `json:"leaves"` // smt constant names, in leaf order
	Kinds  []string `json:"kinds"`
}

type Obligation struct {
	Name    string      `json:"name"`
	Fn      string      `json:"fn"`
	Kind    string      `json:"kind"`
	Props   []string    `json:"props"`
	Clause  string      `json:"clause"`
	Pos     string      `json:"pos"`
	Backend string      `json:"backend"` // smt | static
	Static  string      `json:"static,omitempty"` // for static obligations: "ok" or failure text
	SMT     string      `json:"smt,omitempty"`
	Parts   []string    `json:"parts,omitempty"` // one query per conjunct of the goal (all must be unsat)
	Params  []ParamInfo `json:"params,omitempty"`
	Results []ParamInfo `json:"results,omitempty"`
	Cover   bool        `json:"cover,omitempty"` // expected SAT (vacuity guard)
	NResults int        `json:"nresults"`
	ReplaySMT string    `json:"replay_smt,omitempty"`
	ResultConsts [][2]string `json:"result_consts,omitempty"`
	replayTail string
	declLen int
	cur     string
	goal    string
	extra   string
}

// ---------------------------------------------------------------------------
// State

type State struct {
	cur   string            // Bool const: reached here and all assumptions hold
	heap  map[string]string // component -> array term
	base  int               // lazy base id for components not in heap
	top   string            // allocation counter (Int term)
	ghost map[string]string // ghost scalar state (Int terms)
	hbound map[string]string // component -> allocation counter when it was last written
	baseTop string           // bound for components never written since the last whole-heap havoc
	defers []deferred
}

type deferred struct {
	flag    string // Bool term: this defer was registered
	call    *ssa.Defer
	prepaid bool // ghost effects already applied at registration (defer inside a loop)
}

func (s *State) clone() *State {
	n := &State{cur: s.cur, base: s.base, top: s.top, heap: map[string]string{}, ghost: map[string]string{}, hbound: map[string]string{}, baseTop: s.baseTop}
	for k, v := range s.heap {
		n.heap[k] = v
	}
	for k, v := range s.hbound {
		n.hbound[k] = v
	}
	for k, v := range s.ghost {
		n.ghost[k] = v
	}
	n.defers = append([]deferred(nil), s.defers...)
	return n
}

// ---------------------------------------------------------------------------
// Function context

type retSite struct {
	st      *State
	results []SymVal
	pos     token.Pos
	isPanic bool
}

type fnCtx struct {
	g       *Global
	fn      *ssa.Function
	con     *FuncContract
	fnName  string
	bv      bool
	sb      strings.Builder
	nfresh  int
	nbase   int
	vals    map[ssa.Value]SymVal
	out     map[*ssa.BasicBlock]*State
	edge    map[[2]int]string
	entry   *State
	obls    []*Obligation
	counts  map[string]int
	comps   map[string]string // component -> elem sort
	compDeclared map[string]bool
	strlits map[string]string
	flags   map[string]string
	fired   map[int]bool
	sweepOnly bool
	autoInvs map[int][]Clause
	modWhole map[string]bool
	modPrecise map[string][]string
	anchorLines map[int][]int
	implDone map[string]bool
	rets    []retSite
	params  []ParamInfo
	paramVals map[string]SymVal
	notes   []string // unsupported / abstraction notes
	loops   []*loopInfo
	loopOf  map[*ssa.BasicBlock]*loopInfo // header -> loop
	checkPanics bool
	dbg     map[string][]dbgRef
	lets    map[string]SymVal
	specDepth int
	unboxDeclared map[string]bool
	specFnDeclared map[string]bool
	calleeCount map[string]int
	assumedUsed map[string]bool
	inPanicExit bool
}

type dbgRef struct {
	v      ssa.Value
	isAddr bool
	blk    *ssa.BasicBlock
	idx    int
	obj    types.Object
}

type loopInfo struct {
	header  *ssa.BasicBlock
	ordinal int
	body    map[*ssa.BasicBlock]bool
	backs   []*ssa.BasicBlock
	headSt  *State // state at header after havoc+assume
	preSt   *State
	autoGhost map[string]string
	frameComps []string
	localOnly map[string]bool          // components the loop writes only inside its own allocations
	outerAllocs map[string][]*ssa.Alloc // ... or inside these allocations made before the loop
}

func (c *fnCtx) fresh(hint string) string {
	c.nfresh++
	h := strings.Map(func(r rune) rune {
		if r >= 'a' && r <= 'z' || r >= 'A' && r <= 'Z' || r >= '0' && r <= '9' || r == '_' {
			return r
		}
		return '_'
	}, hint)
	return fmt.Sprintf("%s!%d", h, c.nfresh)
}

func (c *fnCtx) declare(name, sort string) {
	fmt.Fprintf(&c.sb, "(declare-const %s %s)\n", name, sort)
}

func (c *fnCtx) define(hint, sort, term string) string {
	// avoid defining trivially small terms
	if !strings.ContainsAny(term, " (") {
		return term
	}
	n := c.fresh(hint)
	fmt.Fprintf(&c.sb, "(define-fun %s () %s %s)\n", n, sort, term)
	return n
}

func (c *fnCtx) assertGlobal(term string) {
	if term == "true" {
		return
	}
	fmt.Fprintf(&c.sb, "(assert %s)\n", term)
}

func (c *fnCtx) note(format string, args ...any) {
	s := fmt.Sprintf(format, args...)
	for _, n := range c.notes {
		if n == s {
			return
		}
	}
	c.notes = append(c.notes, s)
}

func (c *fnCtx) sortOf(k Kind, t types.Type) string {
	switch k {
	case KInt:
		if c.bv && t != nil {
			if bits, _, ok := intInfo(t); ok {
				return fmt.Sprintf("(_ BitVec %d)", bits)
			}
		}
		if c.bv {
			return "(_ BitVec 64)"
		}
		return "Int"
	case KBool:
		return "Bool"
	case KFloat:
		return sortFP
	case KStr:
		return "Str"
	case KRef:
		return "Ref"
	case KIface:
		return "Iface"
	case KReal:
		return "Real"
	}
	return "Int"
}

// assume adds a fact to the current path.
func (c *fnCtx) assume(st *State, fact string) {
	if fact == "true" {
		return
	}
	if strings.Contains(fact, "(forall ") || strings.Contains(fact, "(exists ") {
		// quantified facts are asserted at top level, guarded by the path condition: inside a
		// define-fun the solvers lose the triggers and stop instantiating them
		for _, p := range splitAnd(fact) {
			if strings.Contains(p, "(forall ") || strings.Contains(p, "(exists ") {
				c.assertGlobal(sImp(st.cur, p))
			} else {
				st.cur = c.define("cur", "Bool", sAnd(st.cur, p))
			}
		}
		return
	}
	st.cur = c.define("cur", "Bool", sAnd(st.cur, fact))
}

func (c *fnCtx) oblName(kind string) string {
	c.counts[kind]++
	return fmt.Sprintf("%s/%s#%d", c.fnName, kind, c.counts[kind])
}

// oblige emits an obligation "goal holds whenever st.cur" and then assumes it.
func (c *fnCtx) oblige(st *State, kind, goal, clause string, props []string, pos token.Pos) *Obligation {
	o := &Obligation{Name: c.oblName(kind), Fn: c.fnName, Kind: kind, Props: c.propsFor(props), Clause: clause,
		Pos: c.posStr(pos), Backend: "smt", declLen: c.sb.Len(), cur: st.cur, goal: goal}
	c.obls = append(c.obls, o)
	c.assume(st, goal)
	return o
}

func (c *fnCtx) propsFor(p []string) []string {
	if len(p) > 0 {
		return p
	}
	if c.con != nil {
		return c.con.Props
	}
	return nil
}

func (c *fnCtx) posStr(p token.Pos) string {
	if p == token.NoPos {
		return ""
	}
	pp := c.g.prog.Fset.Position(p)
	f := pp.Filename
	if i := strings.Index(f, "/repo/"); i >= 0 {
		f = f[i+6:]
	}
	return fmt.Sprintf("%s:%d", f, pp.Line)
}

// ---------------------------------------------------------------------------
// Heap components

// comp returns the current array term of a heap component.
func (c *fnCtx) comp(st *State, comp string, elemSort string) string {
	if t, ok := st.heap[comp]; ok {
		return t
	}
	c.comps[comp] = elemSort
	name := smtName(fmt.Sprintf("H!%s!%d", comp, st.base))
	if !c.compDeclared[name] {
		c.compDeclared[name] = true
		c.declare(name, fmt.Sprintf("(Array Ref %s)", elemSort))
	}
	st.heap[comp] = name
	return name
}

func (c *fnCtx) compSort(comp string) string {
	if s, ok := c.comps[comp]; ok {
		return s
	}
	if kt, ok := c.g.compKT[comp]; ok {
		return c.sortOf(kt.k, kt.t)
	}
	c.note("component %s has unknown sort", comp)
	return "Int"
}

func (c *fnCtx) havocComp(st *State, comp string) {
	if strings.HasPrefix(comp, "$g:") {
		n := c.fresh("g")
		c.declare(n, "Int")
		st.ghost[comp[3:]] = n
		return
	}
	srt := c.compSort(comp)
	c.comps[comp] = srt
	n := smtName(c.fresh("H!" + comp))
	c.declare(n, fmt.Sprintf("(Array Ref %s)", srt))
	st.heap[comp] = n
	st.hbound[comp] = "$cur"
}

// sealBounds pins pending "written just now" bounds to the current allocation counter.
func (c *fnCtx) sealBounds(st *State) {
	for k, v := range st.hbound {
		if v == "$cur" {
			st.hbound[k] = st.top
		}
	}
	if st.baseTop == "$cur" {
		st.baseTop = st.top
	}
}

// boundOf returns the allocation-counter bound of every reference stored in comp.
func (c *fnCtx) boundOf(st *State, comp string) string {
	if b, ok := st.hbound[comp]; ok && b != "$cur" {
		return b
	} else if ok {
		return st.top
	}
	if st.baseTop == "$cur" {
		return st.top
	}
	return st.baseTop
}

func (c *fnCtx) havocAll(st *State) {
	// ghost components are specification state: only contracts that name them change them, so
	// code we know nothing about (dynamic calls, reflection) leaves them alone
	keep := map[string]string{}
	var gcs []string
	for comp := range c.g.compKT {
		if strings.HasPrefix(comp, "$ghost:") {
			gcs = append(gcs, comp)
		}
	}
	sort.Strings(gcs)
	for _, comp := range gcs {
		kt := c.g.compKT[comp]
		keep[comp] = c.comp(st, comp, c.sortOf(kt.k, kt.t))
	}
	c.nbase++
	st.base = c.nbase
	st.heap = keep
	st.hbound = map[string]string{}
	c.bumpTop(st)
	st.baseTop = "$cur"
}

func (c *fnCtx) bumpTop(st *State) {
	n := c.fresh("top")
	c.declare(n, "Int")
	c.assume(st, app(">=", n, st.top))
	st.top = n
}

// A location is a Ref term plus the static pointee type.
type leafLoc struct {
	comp string
	ref  string
	k    Kind
	t    types.Type
}

func (c *fnCtx) leafLocs(ref string, t types.Type) []leafLoc { return c.g.leafLocs(ref, t) }

func (c *fnCtx) fieldLocs(ref, sk string, st *types.Struct, i int) []leafLoc {
	return c.g.fieldLocs(ref, sk, st, i)
}

type compKT struct {
	k Kind
	t types.Type
}

// leafLocs enumerates where the scalar leaves of a T stored at ref live.
func (g *Global) leafLocs(ref string, t types.Type) []leafLoc {
	out := g.leafLocs0(ref, t)
	for _, l := range out {
		if _, ok := g.compKT[l.comp]; !ok {
			g.compKT[l.comp] = compKT{l.k, l.t}
		}
	}
	return out
}

func (g *Global) leafLocs0(ref string, t types.Type) []leafLoc {
	switch kindOf(t) {
	case KStruct:
		st := t.Underlying().(*types.Struct)
		sk := typeKey(t)
		var out []leafLoc
		for i := 0; i < st.NumFields(); i++ {
			out = append(out, g.fieldLocs(ref, sk, st, i)...)
		}
		return out
	case KSlice:
		mk := "$mem:" + typeKey(t)
		return []leafLoc{{mk + ".$s", ref, KRef, nil}, {mk + ".$o", ref, KInt, nil}, {mk + ".$l", ref, KInt, nil}, {mk + ".$c", ref, KInt, nil}}
	}
	if arr, ok := t.Underlying().(*types.Array); ok {
		var out []leafLoc
		if arr.Len() <= 16 {
			for i := int64(0); i < arr.Len(); i++ {
				out = append(out, g.leafLocs(app("elm", ref, intLit64(i)), arr.Elem())...)
			}
			return out
		}
		// large arrays are never accessed as a whole; element components only
		return g.leafLocs(app("elm", ref, "0"), arr.Elem())
	}
	return []leafLoc{{"$mem:" + typeKey(t), ref, kindOf(t), t}}
}

func (g *Global) fieldLocs(ref, sk string, st *types.Struct, i int) []leafLoc {
	out := g.fieldLocs0(ref, sk, st, i)
	for _, l := range out {
		if _, ok := g.compKT[l.comp]; !ok {
			g.compKT[l.comp] = compKT{l.k, l.t}
		}
	}
	return out
}

func (g *Global) fieldLocs0(ref, sk string, st *types.Struct, i int) []leafLoc {
	f := st.Field(i)
	ft := f.Type()
	switch kindOf(ft) {
	case KStruct:
		return g.leafLocs(app("fld", ref, fmt.Sprint(i)), ft)
	case KSlice:
		p := sk + "." + f.Name()
		return []leafLoc{{p + ".$s", ref, KRef, nil}, {p + ".$o", ref, KInt, nil}, {p + ".$l", ref, KInt, nil}, {p + ".$c", ref, KInt, nil}}
	}
	if _, ok := ft.Underlying().(*types.Array); ok {
		return g.leafLocs(app("fld", ref, fmt.Sprint(i)), ft)
	}
	if g.escField[sk+"."+f.Name()] {
		return []leafLoc{{"$mem:" + typeKey(ft), app("fld", ref, fmt.Sprint(i)), kindOf(ft), ft}}
	}
	return []leafLoc{{sk + "." + f.Name(), ref, kindOf(ft), ft}}
}

// rootFacts instantiates rootid(fld(r,i)) = rootid(r) / rootid(elm(r,i)) = rootid(r)
// for the interior references occurring in ref.
func (c *fnCtx) rootFacts(st *State, ref string) {
	if strings.Contains(ref, "!q") {
		return // mentions a bound variable of a quantified spec expression
	}
	for depth := 0; depth < 6; depth++ {
		if !(strings.HasPrefix(ref, "(fld ") || strings.HasPrefix(ref, "(elm ")) {
			return
		}
		key := "$root:" + ref
		if c.flags[key] != "" {
			return
		}
		c.flags[key] = "1"
		// first argument: balanced term after the operator
		rest := ref[5:]
		end := 0
		if rest[0] == '(' {
			d := 0
			for i, ch := range rest {
				if ch == '(' {
					d++
				} else if ch == ')' {
					d--
					if d == 0 {
						end = i + 1
						break
					}
				}
			}
		} else {
			end = strings.IndexAny(rest, " )")
		}
		if end <= 0 {
			return
		}
		base := rest[:end]
		c.assertGlobal(app("=", app("rootid", ref), app("rootid", base)))
		ref = base
	}
}

func (c *fnCtx) loadLocs(st *State, locs []leafLoc, t types.Type) SymVal {
	var terms []string
	for _, l := range locs {
		c.rootFacts(st, l.ref)
		terms = append(terms, app("select", c.comp(st, l.comp, c.sortOf(l.k, l.t)), l.ref))
	}
	if len(terms) == 0 {
		return c.freshVal(st, t, "unk")
	}
	v, _ := unflatten(t, terms)
	return v
}

// loadBound: a bound on the allocation ids of references read from locs.
func (c *fnCtx) loadBound(st *State, locs []leafLoc) string {
	b := ""
	for _, l := range locs {
		if l.k != KRef && l.k != KIface {
			continue
		}
		lb := c.boundOf(st, l.comp)
		if lb == "$cur" {
			lb = st.top
		}
		if b == "" {
			b = lb
		} else if b != lb {
			return st.top
		}
	}
	if b == "" {
		return st.top
	}
	return b
}

func (c *fnCtx) storeLocs(st *State, locs []leafLoc, v SymVal) {
	fl := flatten(v)
	if len(fl) != len(locs) {
		c.note("store shape mismatch (%d leaves vs %d locations)", len(fl), len(locs))
		for _, l := range locs {
			c.havocComp(st, l.comp)
		}
		return
	}
	for i, l := range locs {
		c.rootFacts(st, l.ref)
		old := c.comp(st, l.comp, c.sortOf(l.k, l.t))
		st.heap[l.comp] = c.define("H", fmt.Sprintf("(Array Ref %s)", c.sortOf(l.k, l.t)), app("store", old, l.ref, fl[i].S))
		if l.k == KRef || l.k == KIface {
			st.hbound[l.comp] = st.top
		}
	}
}

// addrLocs resolves the leaf locations addressed by an SSA pointer value.
func (c *fnCtx) addrLocs(st *State, addr ssa.Value) ([]leafLoc, types.Type) {
	pt, ok := addr.Type().Underlying().(*types.Pointer)
	if !ok {
		c.note("address of non-pointer type %s", addr.Type())
		return nil, nil
	}
	if fa, ok := addr.(*ssa.FieldAddr); ok {
		base := c.val(st, fa.X)
		stt := fa.X.Type().Underlying().(*types.Pointer).Elem()
		stru := stt.Underlying().(*types.Struct)
		ft := stru.Field(fa.Field).Type()
		k := kindOf(ft)
		if _, isArr := ft.Underlying().(*types.Array); !isArr && k != KStruct {
			return c.fieldLocs(base.S, typeKey(stt), stru, fa.Field), pt.Elem()
		}
	}
	r := c.val(st, addr)
	return c.leafLocs(r.S, pt.Elem()), pt.Elem()
}

// ---------------------------------------------------------------------------
// Fresh values

func (c *fnCtx) rangeFact(term string, t types.Type) string {
	if c.bv || t == nil {
		return "true"
	}
	bits, signed, ok := intInfo(t)
	if !ok {
		return "true"
	}
	if signed {
		return sAnd(app("<=", intLit(new(big.Int).Neg(pow2(bits-1))), term), app("<=", term, intLit(new(big.Int).Sub(pow2(bits-1), big.NewInt(1)))))
	}
	return sAnd(app("<=", "0", term), app("<=", term, intLit(new(big.Int).Sub(pow2(bits), big.NewInt(1)))))
}

// freshVal declares an unconstrained value of type t (with type ranges) and
// assumes the facts that hold for every well-formed value.
func (c *fnCtx) freshVal(st *State, t types.Type, hint string) SymVal {
	ls := leaves(t)
	var terms []string
	for _, l := range ls {
		n := c.fresh(hint)
		c.declare(n, c.sortOf(l.K, l.T))
		terms = append(terms, n)
	}
	v, _ := unflatten(t, terms)
	c.assumeWellFormed(st, v)
	return v
}

func (c *fnCtx) assumeWellFormed(st *State, v SymVal) { c.assumeWFB(st, v, st.top) }

func (c *fnCtx) assumeWFB(st *State, v SymVal, bound string) {
	var facts []string
	var walk func(v SymVal)
	walk = func(v SymVal) {
		switch v.K {
		case KInt:
			facts = append(facts, c.rangeFact(v.S, v.T))
		case KRef:
			facts = append(facts, app("<=", app("rootid", v.S), bound))
			if tg := c.refTag(v.T); tg != "" {
				facts = append(facts, sImp(sNot(sEq(v.S, "nil")), app("=", app("rtype", v.S), tg)))
			}
		case KSlice:
			facts = append(facts, app("<=", app("rootid", v.Fs[0].S), bound))
			z := c.zeroInt()
			facts = append(facts, c.cmpS("<=", z, v.Fs[1].S), c.cmpS("<=", z, v.Fs[2].S), c.cmpS("<=", v.Fs[2].S, v.Fs[3].S))
			if !c.bv {
				facts = append(facts, app("<=", v.Fs[3].S, "281474976710656"))
			}
		case KIface:
			facts = append(facts, app("<=", app("rootid", app("iref", v.S)), bound), app(">=", app("itag", v.S), "0"))
			facts = append(facts, app("=", app("=", app("itag", v.S), "0"), app("=", v.S, "nilI")))
			facts = append(facts, sImp(sNot(sEq(app("iref", v.S), "nil")), app("=", app("rtype", app("iref", v.S)), app("itag", v.S))))
		case KStr:
			facts = append(facts, app("<=", "0", app("slen", v.S)), app("<=", app("slen", v.S), "281474976710656"))
		case KStruct, KTuple:
			for _, f := range v.Fs {
				walk(f)
			}
		}
		if v.T != nil {
			facts = append(facts, c.typeInvFacts(st, v)...)
		}
	}
	walk(v)
	c.assume(st, sAnd(facts...))
}

// refTag: the type tag of pointers to named struct types (objects carry one dynamic type).
func (c *fnCtx) refTag(t types.Type) string {
	if t == nil {
		return ""
	}
	pt, ok := t.Underlying().(*types.Pointer)
	if !ok {
		return ""
	}
	n, ok := pt.Elem().(*types.Named)
	if !ok {
		return ""
	}
	if _, isS := n.Underlying().(*types.Struct); !isS {
		return ""
	}
	return fmt.Sprint(c.g.tagOf(types.NewPointer(n)))
}

func (c *fnCtx) zeroInt() string {
	if c.bv {
		return "(_ bv0 64)"
	}
	return "0"
}

// cmpS: signed comparison on Int-mode or 64-bit BV-mode ints (used for lengths)
func (c *fnCtx) cmpS(op, a, b string) string {
	if !c.bv {
		return app(op, a, b)
	}
	m := map[string]string{"<=": "bvsle", "<": "bvslt", ">=": "bvsge", ">": "bvsgt"}
	return app(m[op], a, b)
}

func (c *fnCtx) typeInvFacts(st *State, v SymVal) []string {
	n, ok := v.T.(*types.Named)
	if !ok || n.Obj().Pkg() == nil {
		return nil
	}
	decls := c.g.typeinvs[n.Obj().Pkg().Path()+"."+n.Obj().Name()]
	var out []string
	for _, d := range decls {
		env := c.newEnv(st, st)
		env.vars["self"] = v
		r, err := env.evalBool(d.Text)
		if err != nil {
			c.note("typeinv %s: %v", d.Pos, err)
			continue
		}
		out = append(out, r)
	}
	return out
}

// ---------------------------------------------------------------------------
// Constants

func (c *fnCtx) constVal(st *State, k *ssa.Const) SymVal {
	t := k.Type()
	if k.Value == nil {
		return c.zeroVal(t)
	}
	switch kindOf(t) {
	case KInt:
		v, _ := new(big.Int).SetString(k.Value.ExactString(), 10)
		if v == nil {
			i, _ := constant.Int64Val(constant.ToInt(k.Value))
			v = big.NewInt(i)
		}
		return mkInt(c.intConst(v, t), t)
	case KBool:
		if constant.BoolVal(k.Value) {
			return mkBool("true")
		}
		return mkBool("false")
	case KFloat:
		f, _ := constant.Float64Val(k.Value)
		return SymVal{K: KFloat, T: t, S: fpLit(f)}
	case KStr:
		return SymVal{K: KStr, T: t, S: c.strLit(constant.StringVal(k.Value))}
	}
	c.note("constant of type %s", t)
	return c.freshVal(st, t, "const")
}

func (c *fnCtx) intConst(v *big.Int, t types.Type) string {
	if c.bv {
		bits := 64
		if t != nil {
			if b, _, ok := intInfo(t); ok {
				bits = b
			}
		}
		return bvLit(v, bits)
	}
	return intLit(v)
}

func fpLit(f float64) string {
	b := math.Float64bits(f)
	sign := b >> 63
	exp := (b >> 52) & 0x7ff
	man := b & ((1 << 52) - 1)
	return fmt.Sprintf("(fp #b%b #b%011b #b%052b)", sign, exp, man)
}

func (c *fnCtx) strLit(s string) string {
	if n, ok := c.strlits[s]; ok {
		return n
	}
	n := c.fresh("strlit")
	c.declare(n, "Str")
	c.assertGlobal(app("=", app("slen", n), fmt.Sprint(len(s))))
	if len(s) <= 8 {
		for i := 0; i < len(s); i++ {
			c.assertGlobal(app("=", app("sat", n, fmt.Sprint(i)), fmt.Sprint(s[i])))
		}
	}
	// distinct from earlier literals
	var keys []string
	for k := range c.strlits {
		keys = append(keys, k)
	}
	sort.Strings(keys)
	for _, k := range keys {
		c.assertGlobal(app("not", app("=", n, c.strlits[k])))
	}
	c.strlits[s] = n
	return n
}

func (c *fnCtx) zeroVal(t types.Type) SymVal {
	switch kindOf(t) {
	case KInt:
		return mkInt(c.intConst(big.NewInt(0), t), t)
	case KBool:
		return mkBool("false")
	case KFloat:
		return SymVal{K: KFloat, T: t, S: fpLit(0)}
	case KStr:
		return SymVal{K: KStr, T: t, S: c.strLit("")}
	case KRef:
		return mkRef("nil", t)
	case KIface:
		return mkIface("nilI", t)
	case KSlice:
		z := c.zeroInt()
		return SymVal{K: KSlice, T: t, Fs: []SymVal{{K: KRef, S: "nil"}, mkMath(z), mkMath(z), mkMath(z)}}
	case KStruct:
		st := t.Underlying().(*types.Struct)
		v := SymVal{K: KStruct, T: t}
		for i := 0; i < st.NumFields(); i++ {
			v.Fs = append(v.Fs, c.zeroVal(st.Field(i).Type()))
		}
		return v
	case KTuple:
		tp := t.(*types.Tuple)
		v := SymVal{K: KTuple, T: t}
		for i := 0; i < tp.Len(); i++ {
			v.Fs = append(v.Fs, c.zeroVal(tp.At(i).Type()))
		}
		return v
	}
	if arr, ok := t.Underlying().(*types.Array); ok && arr.Len() <= 16 {
		v := SymVal{K: KTuple, T: t}
		for i := int64(0); i < arr.Len(); i++ {
			v.Fs = append(v.Fs, c.zeroVal(arr.Elem()))
		}
		return v
	}
	return SymVal{K: KOpq, T: t, S: "0"}
}

// ---------------------------------------------------------------------------
// Value lookup

func (c *fnCtx) val(st *State, v ssa.Value) SymVal {
	if sv, ok := c.vals[v]; ok {
		return sv
	}
	switch v := v.(type) {
	case *ssa.Const:
		return c.constVal(st, v)
	case *ssa.Global:
		idx := c.g.globalIdx[v]
		return mkRef(app("obj", intLit64(int64(-idx))), v.Type())
	case *ssa.Function:
		return SymVal{K: KOpq, T: v.Type(), S: c.fnToken(v.String())}
	case *ssa.Builtin:
		return SymVal{K: KOpq, T: v.Type(), S: "0"}
	case *ssa.FreeVar:
		sv := c.freshVal(c.entry, v.Type(), "fv_"+v.Name())
		c.vals[v] = sv
		return sv
	}
	c.note("use of undefined value %s (%T)", v.Name(), v)
	sv := c.freshVal(st, v.Type(), "undef")
	c.vals[v] = sv
	return sv
}

func (c *fnCtx) fnToken(name string) string {
	key := "fn:" + name
	if n, ok := c.flags[key]; ok {
		return n
	}
	n := c.fresh("fnval")
	c.declare(n, "Int")
	c.flags[key] = n
	return n
}

// nameVal binds every leaf of v to a named constant (keeps terms small).
func (c *fnCtx) nameVal(v SymVal, hint string) SymVal {
	switch v.K {
	case KStruct, KTuple, KSlice:
		out := v
		out.Fs = make([]SymVal, len(v.Fs))
		for i, f := range v.Fs {
			out.Fs[i] = c.nameVal(f, hint)
		}
		return out
	}
	if !strings.ContainsAny(v.S, " (") {
		return v
	}
	out := v
	out.S = c.define(hint, c.sortOf(v.K, v.T), v.S)
	return out
}

func iteVal(cond string, a, b SymVal) SymVal {
	switch a.K {
	case KStruct, KTuple, KSlice:
		out := a
		out.Fs = make([]SymVal, len(a.Fs))
		for i := range a.Fs {
			out.Fs[i] = iteVal(cond, a.Fs[i], b.Fs[i])
		}
		return out
	}
	out := a
	out.S = sIte(cond, a.S, b.S)
	return out
}

// ---------------------------------------------------------------------------
// Integer arithmetic (int mode: exact wrap semantics; bv mode: bit-vectors)

func (c *fnCtx) wrap(term string, t types.Type) string {
	if c.bv {
		return term
	}
	bits, signed, ok := intInfo(t)
	if !ok {
		return term
	}
	if signed {
		return app(fmt.Sprintf("wrap_s%d", bits), term)
	}
	return app(fmt.Sprintf("wrap_u%d", bits), term)
}

func isConstInt(s string) (*big.Int, bool) {
	t := s
	neg := false
	if strings.HasPrefix(t, "(- ") && strings.HasSuffix(t, ")") {
		neg = true
		t = t[3 : len(t)-1]
	}
	v, ok := new(big.Int).SetString(t, 10)
	if !ok {
		return nil, false
	}
	if neg {
		v.Neg(v)
	}
	return v, true
}

func (c *fnCtx) binop(st *State, op token.Token, x, y SymVal, t types.Type, pos token.Pos) SymVal {
	switch x.K {
	case KInt:
		return c.intBinop(st, op, x, y, t, pos)
	case KBool:
		switch op {
		case token.EQL:
			return mkBool(sEq(x.S, y.S))
		case token.NEQ:
			return mkBool(sNot(sEq(x.S, y.S)))
		case token.AND, token.LAND:
			return mkBool(sAnd(x.S, y.S))
		case token.OR, token.LOR:
			return mkBool(sOr(x.S, y.S))
		case token.XOR:
			return mkBool(app("xor", x.S, y.S))
		}
	case KFloat:
		switch op {
		case token.ADD:
			return SymVal{K: KFloat, T: t, S: app("fp.add", "RNE", x.S, y.S)}
		case token.SUB:
			return SymVal{K: KFloat, T: t, S: app("fp.sub", "RNE", x.S, y.S)}
		case token.MUL:
			return SymVal{K: KFloat, T: t, S: app("fp.mul", "RNE", x.S, y.S)}
		case token.QUO:
			return SymVal{K: KFloat, T: t, S: app("fp.div", "RNE", x.S, y.S)}
		case token.EQL:
			return mkBool(app("fp.eq", x.S, y.S))
		case token.NEQ:
			return mkBool(sNot(app("fp.eq", x.S, y.S)))
		case token.LSS:
			return mkBool(app("fp.lt", x.S, y.S))
		case token.LEQ:
			return mkBool(app("fp.leq", x.S, y.S))
		case token.GTR:
			return mkBool(app("fp.gt", x.S, y.S))
		case token.GEQ:
			return mkBool(app("fp.geq", x.S, y.S))
		}
	case KStr:
		switch op {
		case token.ADD:
			r := c.define("cat", "Str", app("sconcat", x.S, y.S))
			c.assume(st, app("=", app("slen", r), app("+", app("slen", x.S), app("slen", y.S))))
			return SymVal{K: KStr, T: t, S: r}
		case token.EQL, token.NEQ:
			// comparison with the empty string is a test of the length (the empty string is unique);
			// equal strings have equal lengths
			emp := c.strlits[""]
			var r string
			if emp != "" && (x.S == emp || y.S == emp) {
				o := x.S
				if o == emp {
					o = y.S
				}
				r = app("=", app("slen", o), "0")
			} else {
				r = sEq(x.S, y.S)
				if !strings.Contains(x.S, "!q") && !strings.Contains(y.S, "!q") && !strings.Contains(x.S, "sk!") && !strings.Contains(y.S, "sk!") {
					c.assume(st, sImp(r, app("=", app("slen", x.S), app("slen", y.S))))
				}
			}
			if op == token.NEQ {
				r = sNot(r)
			}
			return mkBool(r)
		default:
			n := c.fresh("strcmp")
			c.declare(n, "Bool")
			return mkBool(n)
		}
	case KRef, KIface, KOpq:
		switch op {
		case token.EQL:
			return mkBool(sEq(x.S, y.S))
		case token.NEQ:
			return mkBool(sNot(sEq(x.S, y.S)))
		}
	case KSlice:
		// only comparison with nil is legal Go
		switch op {
		case token.EQL:
			return mkBool(sEq(x.Fs[0].S, y.Fs[0].S))
		case token.NEQ:
			return mkBool(sNot(sEq(x.Fs[0].S, y.Fs[0].S)))
		}
	case KStruct:
		fx, fy := flatten(x), flatten(y)
		var eqs []string
		for i := range fx {
			if fx[i].K == KFloat {
				eqs = append(eqs, app("fp.eq", fx[i].S, fy[i].S))
			} else {
				eqs = append(eqs, sEq(fx[i].S, fy[i].S))
			}
		}
		switch op {
		case token.EQL:
			return mkBool(sAnd(eqs...))
		case token.NEQ:
			return mkBool(sNot(sAnd(eqs...)))
		}
	}
	c.note("binop %s on kind %d", op, x.K)
	return c.freshVal(st, t, "binop")
}

func (c *fnCtx) intBinop(st *State, op token.Token, x, y SymVal, t types.Type, pos token.Pos) SymVal {
	if c.bv {
		return c.bvBinop(st, op, x, y, t, pos)
	}
	ot := x.T // operand type
	if ot == nil {
		ot = t
	}
	switch op {
	case token.ADD:
		return mkInt(c.wrap(app("+", x.S, y.S), t), t)
	case token.SUB:
		return mkInt(c.wrap(app("-", x.S, y.S), t), t)
	case token.MUL:
		return mkInt(c.wrap(app("*", x.S, y.S), t), t)
	case token.QUO:
		c.divCheck(st, y, pos)
		return mkInt(c.wrap(app("tdiv", x.S, y.S), t), t)
	case token.REM:
		c.divCheck(st, y, pos)
		return mkInt(app("trem", x.S, y.S), t)
	case token.EQL:
		return mkBool(sEq(x.S, y.S))
	case token.NEQ:
		return mkBool(sNot(sEq(x.S, y.S)))
	case token.LSS:
		return mkBool(app("<", x.S, y.S))
	case token.LEQ:
		return mkBool(app("<=", x.S, y.S))
	case token.GTR:
		return mkBool(app(">", x.S, y.S))
	case token.GEQ:
		return mkBool(app(">=", x.S, y.S))
	case token.SHL:
		if k, ok := isConstInt(y.S); ok && k.IsInt64() && k.Int64() >= 0 && k.Int64() < 4096 {
			return mkInt(c.wrap(app("*", x.S, pow2(int(k.Int64())).String()), t), t)
		}
		c.needPow2()
		r := c.define("shl", "Int", c.wrap(app("*", x.S, app("pow2", y.S)), t))
		return mkInt(r, t)
	case token.SHR:
		if k, ok := isConstInt(y.S); ok && k.IsInt64() && k.Int64() >= 0 && k.Int64() < 4096 {
			return mkInt(app("div", x.S, pow2(int(k.Int64())).String()), t)
		}
		c.needPow2()
		return mkInt(app("div", x.S, app("pow2", y.S)), t)
	case token.AND:
		if k, ok := isConstInt(y.S); ok {
			if m := new(big.Int).Add(k, big.NewInt(1)); k.Sign() >= 0 && m.BitLen() > 0 && new(big.Int).And(m, k).Sign() == 0 {
				return mkInt(app("mod", x.S, m.String()), t)
			}
		}
		if k, ok := isConstInt(x.S); ok {
			if m := new(big.Int).Add(k, big.NewInt(1)); k.Sign() >= 0 && new(big.Int).And(m, k).Sign() == 0 {
				return mkInt(app("mod", y.S, m.String()), t)
			}
		}
		return c.bitUF(st, "band", x, y, t)
	case token.OR:
		return c.bitUF(st, "bor", x, y, t)
	case token.XOR:
		return c.bitUF(st, "bxor", x, y, t)
	case token.AND_NOT:
		return c.bitUF(st, "bandnot", x, y, t)
	}
	c.note("int binop %s", op)
	return c.freshVal(st, t, "binop")
}

func (c *fnCtx) needPow2() {
	if c.flags["$pow2"] != "" {
		return
	}
	c.flags["$pow2"] = "1"
	fmt.Fprintf(&c.sb, "(declare-fun pow2 (Int) Int)\n")
	for i := 0; i <= 64; i++ {
		c.assertGlobal(app("=", app("pow2", fmt.Sprint(i)), pow2(i).String()))
	}
	c.assertGlobal("(forall ((k Int)) (! (> (pow2 k) 0) :pattern ((pow2 k))))")
}

// bitUF models a bitwise operation in int mode as an uninterpreted function
// constrained by sign/range facts only (bit-precise reasoning needs arith bv).
func (c *fnCtx) bitUF(st *State, name string, x, y SymVal, t types.Type) SymVal {
	bits, signed, _ := intInfo(t)
	fn := fmt.Sprintf("%s_%d", name, bits)
	if c.flags["$uf:"+fn] == "" {
		c.flags["$uf:"+fn] = "1"
		fmt.Fprintf(&c.sb, "(declare-fun %s (Int Int) Int)\n", fn)
	}
	r := c.define(name, "Int", app(fn, x.S, y.S))
	facts := []string{c.rangeFact(r, t)}
	if signed {
		// for two's complement operands in [-2^(n-1), 2^(n-1)) the result of & | ^ stays in
		// [min(x,y,..)]: sign facts
		switch name {
		case "band":
			facts = append(facts, sImp(sOr(app(">=", x.S, "0"), app(">=", y.S, "0")), app(">=", r, "0")),
				sImp(app(">=", x.S, "0"), app("<=", r, x.S)), sImp(app(">=", y.S, "0"), app("<=", r, y.S)),
				sImp(sAnd(app("<", x.S, "0"), app("<", y.S, "0")), app("<", r, "0")))
		case "bor":
			facts = append(facts, sImp(sAnd(app(">=", x.S, "0"), app(">=", y.S, "0")), app(">=", r, "0")),
				sImp(sOr(app("<", x.S, "0"), app("<", y.S, "0")), app("<", r, "0")))
		case "bxor":
			facts = append(facts, app("=", app(">=", r, "0"), app("=", app(">=", x.S, "0"), app(">=", y.S, "0"))))
		}
	}
	if signed {
		// sign-extension closure: operands that fit k signed bits give a result that fits k signed bits
		for _, k := range []int{8, 16, 32} {
			if k >= bits {
				continue
			}
			lo, hi := "(- "+pow2(k-1).String()+")", pow2(k-1).String()
			in := func(v string) string { return sAnd(app("<=", lo, v), app("<", v, hi)) }
			facts = append(facts, sImp(sAnd(in(x.S), in(y.S)), in(r)))
		}
	}
	c.assume(st, sAnd(facts...))
	return mkInt(r, t)
}

func (c *fnCtx) divCheck(st *State, y SymVal, pos token.Pos) {
	if !c.checkPanics {
		return
	}
	if k, ok := isConstInt(y.S); ok && k.Sign() != 0 {
		return
	}
	c.oblige(st, "div0", sNot(sEq(y.S, c.zeroOf(y))), "divisor != 0", c.safetyProps(), pos)
}

func (c *fnCtx) zeroOf(v SymVal) string {
	if c.bv {
		return c.intConst(big.NewInt(0), v.T)
	}
	return "0"
}

func (c *fnCtx) safetyProps() []string {
	if c.con != nil && c.con.Sweep {
		return []string{"C02"}
	}
	return nil
}

func (c *fnCtx) convert(st *State, x SymVal, from, to types.Type) SymVal {
	fk, tk := kindOf(from), kindOf(to)
	switch {
	case fk == KInt && tk == KInt:
		if c.bv {
			return c.bvConvert(x, from, to)
		}
		fb, fs, _ := intInfo(from)
		tb, ts, _ := intInfo(to)
		if fs == ts && tb >= fb || !fs && ts && tb > fb {
			return mkInt(x.S, to)
		}
		return mkInt(c.wrap(x.S, to), to)
	case fk == KInt && tk == KFloat:
		if c.bv {
			_, signed, _ := intInfo(from)
			if signed {
				return SymVal{K: KFloat, T: to, S: app("(_ to_fp 11 53)", "RNE", x.S)}
			}
			return SymVal{K: KFloat, T: to, S: app("(_ to_fp_unsigned 11 53)", "RNE", x.S)}
		}
		return SymVal{K: KFloat, T: to, S: app("(_ to_fp 11 53)", "RNE", app("to_real", x.S))}
	case fk == KFloat && tk == KInt:
		// exact only inside the target range; outside it Go's result is implementation-defined
		n := c.fresh("f2i")
		c.declare(n, c.sortOf(KInt, to))
		r := mkInt(n, to)
		if !c.bv {
			// trunc toward zero, characterised through reals
			rr := app("fp.to_real", app("fp.roundToIntegral", "RTZ", x.S))
			bits, signed, _ := intInfo(to)
			lo, hi := "0", intLit(new(big.Int).Sub(pow2(bits), big.NewInt(1)))
			if signed {
				lo, hi = intLit(new(big.Int).Neg(pow2(bits-1))), intLit(new(big.Int).Sub(pow2(bits-1), big.NewInt(1)))
			}
			inRange := sAnd(sNot(app("fp.isNaN", x.S)), sNot(app("fp.isInfinite", x.S)), app("<=", app("to_real", lo), rr), app("<=", rr, app("to_real", hi)))
			c.assume(st, sAnd(c.rangeFact(n, to), sImp(inRange, app("=", app("to_real", n), rr))))
		}
		return r
	case fk == KFloat && tk == KFloat:
		return SymVal{K: KFloat, T: to, S: x.S}
	case fk == KStr && tk == KStr:
		return SymVal{K: KStr, T: to, S: x.S}
	case fk == KStr && tk == KSlice:
		// []byte(s): fresh backing store with the same length
		v := c.freshVal(st, to, "bytes")
		ref := c.allocRef(st)
		v.Fs[0].S = ref
		c.assume(st, sAnd(sEq(v.Fs[1].S, c.zeroInt()), sEq(v.Fs[2].S, c.lenOfStr(x)), sEq(v.Fs[3].S, v.Fs[2].S)))
		return v
	case fk == KSlice && tk == KStr:
		n := c.fresh("str")
		c.declare(n, "Str")
		c.assume(st, sEq(c.lenOfStr(SymVal{K: KStr, S: n}), x.Fs[2].S))
		if !c.bv {
			// string(b): the characters are the bytes of b at the time of the conversion
			if et := elemType(from); et != nil {
				k := c.fresh("qk")
				locs := c.leafLocs(app("elm", x.Fs[0].S, app("+", x.Fs[1].S, k)), et)
				if len(locs) == 1 {
					cell := app("select", c.comp(st, locs[0].comp, c.sortOf(locs[0].k, locs[0].t)), locs[0].ref)
					c.assume(st, fmt.Sprintf("(forall ((%s Int)) (! (=> (and (<= 0 %s) (< %s %s)) (= (sat %s %s) %s)) :pattern ((sat %s %s))))",
						k, k, k, x.Fs[2].S, n, k, cell, n, k))
				}
			}
		}
		return SymVal{K: KStr, T: to, S: n}
	case fk == KInt && tk == KStr:
		n := c.fresh("str")
		c.declare(n, "Str")
		c.assume(st, sAnd(app("<=", "1", app("slen", n)), app("<=", app("slen", n), "4")))
		return SymVal{K: KStr, T: to, S: n}
	case fk == KOpq && tk == KRef, fk == KRef && tk == KOpq, fk == KOpq && tk == KOpq, fk == KOpq && tk == KInt, fk == KInt && tk == KOpq:
		c.note("unsafe conversion %s -> %s abstracted", from, to)
		return c.freshVal(st, to, "unsafe")
	}
	c.note("conversion %s -> %s", from, to)
	return c.freshVal(st, to, "conv")
}

func (c *fnCtx) lenOfStr(s SymVal) string {
	if c.bv {
		return app("(_ int2bv 64)", app("slen", s.S))
	}
	return app("slen", s.S)
}

func (c *fnCtx) allocRef(st *State) string {
	n := c.define("newtop", "Int", app("+", st.top, "1"))
	st.top = n
	r := app("obj", n)
	c.assume(st, app("=", app("rootid", r), n))
	return r
}
