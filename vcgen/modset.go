package main

import (
	"go/types"
	"sort"
	"strings"

	"golang.org/x/tools/go/ssa"
)

// ModSet is a sound over-approximation of the heap components a function may
// write at locations that existed before the call (stores into objects the
// function itself allocated are invisible to callers and left out).
type ModSet struct {
	comps map[string]bool
	all   bool
	why   string // why all
}

func (m *ModSet) add(o *ModSet) bool {
	changed := false
	if o.all && !m.all {
		m.all = true
		m.why = o.why
		changed = true
	}
	for k := range o.comps {
		if !m.comps[k] {
			m.comps[k] = true
			changed = true
		}
	}
	return changed
}

func inModulePkg(p *ssa.Package) bool {
	return p != nil && strings.HasPrefix(p.Pkg.Path(), "go.starlark.net")
}

// rootsAtLocalAlloc reports whether the address chain of a store starts at an
// allocation made in the same function (fresh memory).
func rootsAtLocalAlloc(addr ssa.Value) bool {
	for {
		switch a := addr.(type) {
		case *ssa.Alloc:
			return true
		case *ssa.FieldAddr:
			addr = a.X
		case *ssa.IndexAddr:
			if _, isSlice := a.X.Type().Underlying().(*types.Slice); isSlice {
				// element of a slice: fresh only if the slice was made here
				switch s := a.X.(type) {
				case *ssa.MakeSlice:
					return true
				case *ssa.Slice:
					addr = s.X
					continue
				}
				return false
			}
			addr = a.X
		default:
			return false
		}
	}
}

func (g *Global) storeComps(addr ssa.Value) []string {
	pt, ok := addr.Type().Underlying().(*types.Pointer)
	if !ok {
		return nil
	}
	var locs []leafLoc
	if fa, ok := addr.(*ssa.FieldAddr); ok {
		stt := fa.X.Type().Underlying().(*types.Pointer).Elem()
		stru := stt.Underlying().(*types.Struct)
		ft := stru.Field(fa.Field).Type()
		if _, isArr := ft.Underlying().(*types.Array); !isArr && kindOf(ft) != KStruct {
			locs = g.fieldLocs("nil", typeKey(stt), stru, fa.Field)
		}
	}
	if locs == nil {
		locs = g.leafLocs("nil", pt.Elem())
	}
	var out []string
	for _, l := range locs {
		out = append(out, l.comp)
	}
	return out
}

// contractStaticMods returns the static components of a contract's modifies clause.
func (g *Global) contractStaticMods(fn *ssa.Function, con *FuncContract) *ModSet {
	ms := &ModSet{comps: map[string]bool{}}
	if con.ModAll {
		ms.all = true
		ms.why = "contract says modifies *"
		return ms
	}
	c := newFnCtx(g, fn, nil)
	ci := calleeInfo{key: g.funcKey[fn], fn: fn, con: con, sig: fn.Signature}
	for _, p := range fn.Params {
		ci.names = append(ci.names, p.Name())
		ci.ptypes = append(ci.ptypes, p.Type())
	}
	for _, m := range c.staticModComps(ci) {
		ms.comps[m] = true
	}
	return ms
}

func (g *Global) computeModSets() {
	var fns []*ssa.Function
	for fn := range g.allFuncs {
		fns = append(fns, fn)
	}
	sort.Slice(fns, func(i, j int) bool { return fns[i].String() < fns[j].String() })
	for _, fn := range fns {
		g.modsets[fn] = &ModSet{comps: map[string]bool{}}
	}
	// methods by name for CHA over module types
	g.buildCHA()
	changed := true
	for iter := 0; changed && iter < 50; iter++ {
		changed = false
		for _, fn := range fns {
			if !inModulePkg(fn.Pkg) && fn.Pkg != nil {
				continue // externals are summarised at the call site
			}
			if fn.Blocks == nil {
				continue
			}
			ms := g.modsets[fn]
			if con := g.contractFor(fn); con != nil {
				for _, gm := range con.GhostMods {
					if !ms.comps["$g:"+gm] {
						ms.comps["$g:"+gm] = true
						changed = true
					}
				}
				for _, gc := range con.GhostComps {
					if !ms.comps[gc] {
						ms.comps[gc] = true
						changed = true
					}
				}
			}
			if con := g.contractFor(fn); con != nil && con.HasMod {
				// callers rely on the contract's frame; the body is checked against it
				if len(ms.comps) == 0 && !ms.all {
					if ms.add(g.contractStaticMods(fn, con)) {
						changed = true
					}
				}
				continue
			}
			for _, b := range fn.Blocks {
				for _, in := range b.Instrs {
					switch in := in.(type) {
					case *ssa.Store:
						if rootsAtLocalAlloc(in.Addr) {
							continue
						}
						for _, m := range g.storeComps(in.Addr) {
							if !ms.comps[m] {
								ms.comps[m] = true
								changed = true
							}
						}
					case *ssa.Go, *ssa.Send, *ssa.Select:
						if !ms.all {
							ms.all = true
							ms.why = "concurrency in " + fn.String()
							changed = true
						}
					case ssa.CallInstruction:
						if ms.add(g.modSetOfCall(fn, in.Common())) {
							changed = true
						}
					}
				}
			}
		}
	}
}

type chaKey struct {
	name string
}

func (g *Global) buildCHA() {
	g.cha = map[string][]*ssa.Function{}
	for fn := range g.allFuncs {
		if fn.Signature.Recv() == nil || !inModulePkg(fn.Pkg) || fn.Synthetic != "" {
			continue
		}
		g.cha[fn.Name()] = append(g.cha[fn.Name()], fn)
	}
	for k := range g.cha {
		fs := g.cha[k]
		sort.Slice(fs, func(i, j int) bool { return fs[i].String() < fs[j].String() })
	}
}

// implementationsOf lists module methods that may be the target of an
// interface method call.
func (g *Global) implementationsOf(recvT types.Type, m *types.Func) []*ssa.Function {
	iface, ok := recvT.Underlying().(*types.Interface)
	if !ok {
		return nil
	}
	var out []*ssa.Function
	for _, fn := range g.cha[m.Name()] {
		rt := fn.Signature.Recv().Type()
		if types.Implements(rt, iface) {
			out = append(out, fn)
		} else if _, isPtr := rt.(*types.Pointer); !isPtr && types.Implements(types.NewPointer(rt), iface) {
			out = append(out, fn)
		}
	}
	return out
}

func (g *Global) modSetOf(fn *ssa.Function) *ModSet {
	if ms, ok := g.modsets[fn]; ok {
		return ms
	}
	if o := fn.Origin(); o != nil && o != fn {
		if ms, ok := g.modsets[o]; ok {
			return ms
		}
	}
	return &ModSet{comps: map[string]bool{}, all: true, why: "unknown function"}
}

// modSetOfCall summarises one call site.
func (g *Global) modSetOfCall(caller *ssa.Function, cc *ssa.CallCommon) *ModSet {
	ms := &ModSet{comps: map[string]bool{}}
	if _, ok := cc.Value.(*ssa.Builtin); ok {
		b := cc.Value.(*ssa.Builtin)
		switch b.Name() {
		case "append", "copy", "clear":
			if len(cc.Args) > 0 && !rootsAtLocalSlice(cc.Args[0]) {
				if et := elemType(cc.Args[0].Type()); et != nil {
					if _, isSl := cc.Args[0].Type().Underlying().(*types.Slice); isSl {
						for _, l := range g.leafLocs("nil", et) {
							ms.comps[l.comp] = true
						}
					}
				}
			}
		}
		return ms
	}
	if cc.IsInvoke() {
		key, con := g.ifaceContract(cc.Value.Type(), cc.Method)
		if con != nil && con.HasMod {
			if con.ModAll {
				ms.all = true
				ms.why = "interface contract modifies *"
				return ms
			}
			// static comps of the interface contract
			c := newFnCtx(g, caller, nil)
			ci := calleeInfo{key: key, con: con, sig: cc.Signature(), names: []string{"self"}, ptypes: []types.Type{cc.Value.Type()}}
			for _, m := range c.staticModComps(ci) {
				ms.comps[m] = true
			}
			return ms
		}
		impls := g.implementationsOf(cc.Value.Type(), cc.Method)
		for _, f := range impls {
			ms.add(g.modSetOf(f))
		}
		// host implementations are assumed to respect the same frame (assumption A5)
		return ms
	}
	var fn *ssa.Function
	switch v := cc.Value.(type) {
	case *ssa.Function:
		fn = v
	case *ssa.MakeClosure:
		fn = v.Fn.(*ssa.Function)
	}
	if fn == nil {
		if _, con := g.fieldFuncContract(cc.Value); con != nil && con.HasMod && !con.ModAll && len(con.Modifies) == 0 {
			return ms // host callback assumed not to write module state (pure / modifies nothing)
		}
		ms.all = true
		ms.why = "dynamic call in " + caller.String()
		return ms
	}
	if fn.Pkg == nil && fn.Origin() != nil {
		// generic instantiation
		fn2 := fn.Origin()
		if fn2.Pkg != nil && !inModulePkg(fn2.Pkg) {
			return g.externalCallMods(caller, cc)
		}
	}
	if fn.Pkg != nil && !inModulePkg(fn.Pkg) {
		return g.externalCallMods(caller, cc)
	}
	if con := g.contractFor(fn); con != nil && con.HasMod {
		ms := g.contractStaticMods(fn, con)
		for _, gc := range con.GhostComps {
			ms.comps[gc] = true
		}
		return ms
	}
	if fn.Blocks == nil {
		return g.externalCallMods(caller, cc)
	}
	return g.modSetOf(fn)
}

func rootsAtLocalSlice(v ssa.Value) bool {
	switch s := v.(type) {
	case *ssa.MakeSlice:
		return true
	case *ssa.Slice:
		if a, ok := s.X.(*ssa.Alloc); ok {
			_ = a
			return true
		}
		return rootsAtLocalSlice(s.X)
	case *ssa.Const:
		return true // nil slice
	}
	return false
}

// externalCallMods: a function outside the module may write through pointer
// and slice arguments, and may call back through function-valued or
// (non-empty) interface-valued arguments. It cannot name unexported fields.
func (g *Global) externalCallMods(caller *ssa.Function, cc *ssa.CallCommon) *ModSet {
	ms := &ModSet{comps: map[string]bool{}}
	// reflection writes memory that is not visible in the argument types: reflect.Value.Set*
	// (and friends) may write anything reachable from the Value
	if f, ok := cc.Value.(*ssa.Function); ok && f.Pkg != nil && f.Pkg.Pkg.Path() == "reflect" && f.Signature.Recv() != nil {
		n := f.Name()
		if strings.HasPrefix(n, "Set") || n == "Clear" || n == "Grow" || n == "Send" || n == "Call" || n == "CallSlice" {
			ms.all = true
			ms.why = "reflect.Value." + n + " in " + caller.String()
			return ms
		}
	}
	args := cc.Args
	for _, a := range args {
		t := a.Type()
		switch u := t.Underlying().(type) {
		case *types.Pointer:
			if rootsAtLocalAlloc(a) {
				continue
			}
			// only exported-field-free writes: conservatively the pointee's own components
			for _, l := range g.leafLocs("nil", u.Elem()) {
				ms.comps[l.comp] = true
			}
		case *types.Slice:
			if rootsAtLocalSlice(a) {
				continue
			}
			for _, l := range g.leafLocs("nil", u.Elem()) {
				ms.comps[l.comp] = true
			}
		case *types.Signature:
			// callback: closures of the caller or a named function
			switch f := a.(type) {
			case *ssa.Function:
				ms.add(g.modSetOf(f))
			case *ssa.MakeClosure:
				ms.add(g.modSetOf(f.Fn.(*ssa.Function)))
			default:
				ms.all = true
				ms.why = "function value passed to external code in " + caller.String()
			}
		case *types.Interface:
			if u.NumMethods() == 0 {
				continue // fmt-style: only String/Error/Format are called (assumed pure)
			}
			if mi, ok := a.(*ssa.MakeInterface); ok {
				// known dynamic type: its methods named in the interface
				mset := g.prog.MethodSets.MethodSet(mi.X.Type())
				for i := 0; i < u.NumMethods(); i++ {
					if sel := mset.Lookup(u.Method(i).Pkg(), u.Method(i).Name()); sel != nil {
						if f := g.prog.MethodValue(sel); f != nil {
							ms.add(g.modSetOf(f))
						}
					}
				}
				continue
			}
			for i := 0; i < u.NumMethods(); i++ {
				for _, f := range g.implementationsOf(t, u.Method(i)) {
					ms.add(g.modSetOf(f))
				}
			}
		}
	}
	return ms
}
