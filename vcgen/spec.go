package main

import (
	"fmt"
	"go/ast"
	"go/parser"
	"go/token"
	"go/types"
	"math/big"
	"sort"
	"strconv"
	"strings"

	"golang.org/x/tools/go/ssa"
)

// Env evaluates specification expressions (Go expression syntax plus
// ==>, <==>, old(), forall(), exists(), spec functions) to SMT terms.
type Env struct {
	c         *fnCtx
	st        *State
	old       *State
	vars      map[string]SymVal
	at        *ssa.BasicBlock // for source-variable lookup in invariants
	calleePkg string
	bound     map[string]bool
	atEnd     bool
	hdr       *ssa.BasicBlock
	upTo      ssa.Instruction
	atCall    bool // the clause of a callee evaluated at a call: parameter names are bound in vars
}

func (c *fnCtx) newEnv(st, old *State) *Env {
	e := &Env{c: c, st: st, old: old, vars: map[string]SymVal{}, bound: map[string]bool{}}
	if c.con != nil {
		e.calleePkg = c.con.Pkg // names in a contract resolve in the package that declares it
	}
	return e
}

func (c *fnCtx) newEnvAt(st *State, at *ssa.BasicBlock) *Env {
	e := c.newEnv(st, c.entry)
	e.at = at
	return e
}

func (e *Env) child() *Env {
	n := &Env{c: e.c, st: e.st, old: e.old, vars: map[string]SymVal{}, at: e.at, calleePkg: e.calleePkg, bound: map[string]bool{}, atEnd: e.atEnd, hdr: e.hdr, upTo: e.upTo, atCall: e.atCall}
	for k, v := range e.vars {
		n.vars[k] = v
	}
	for k, v := range e.bound {
		n.bound[k] = v
	}
	return n
}

// splitImp splits at the lowest-precedence operators <==> and ==>.
func splitOp(s, op string) (string, string, bool) {
	depth := 0
	for i := 0; i+len(op) <= len(s); i++ {
		switch s[i] {
		case '(', '[', '{':
			depth++
		case ')', ']', '}':
			depth--
		}
		if depth == 0 && strings.HasPrefix(s[i:], op) {
			if op == "==>" && i > 0 && s[i-1] == '<' {
				continue
			}
			return strings.TrimSpace(s[:i]), strings.TrimSpace(s[i+len(op):]), true
		}
	}
	return "", "", false
}

func (e *Env) evalBool(text string) (string, error) {
	v, err := e.evalText(text)
	if err != nil {
		return "", err
	}
	if v.K != KBool {
		return "", fmt.Errorf("expression %q is not boolean", text)
	}
	return v.S, nil
}

func (e *Env) evalText(text string) (SymVal, error) {
	text = strings.TrimSpace(text)
	if a, b, ok := splitOp(text, "<==>"); ok {
		x, err := e.evalBool(a)
		if err != nil {
			return SymVal{}, err
		}
		y, err := e.evalBool(b)
		if err != nil {
			return SymVal{}, err
		}
		return mkBool(app("=", x, y)), nil
	}
	if a, b, ok := splitOp(text, "==>"); ok {
		x, err := e.evalBool(a)
		if err != nil {
			return SymVal{}, err
		}
		y, err := e.evalBool(b)
		if err != nil {
			return SymVal{}, err
		}
		return mkBool(sImp(x, y)), nil
	}
	// Parenthesised sub-expressions may contain ==> as well: rewrite "(A ==> B)" into imp(A, B)
	text = rewriteInnerImps(text)
	ex, err := parser.ParseExpr(text)
	if err != nil {
		return SymVal{}, fmt.Errorf("parse %q: %v", text, err)
	}
	return e.eval(ex)
}

// rewriteInnerImps turns parenthesised "(A ==> B)" / "(A <==> B)" into calls imp(A,B) / iff(A,B).
func rewriteInnerImps(s string) string {
	for {
		changed := false
		// find innermost parenthesis pair containing ==> at its own depth
		stack := []int{}
		for i := 0; i < len(s); i++ {
			switch s[i] {
			case '(':
				stack = append(stack, i)
			case ')':
				if len(stack) == 0 {
					return s
				}
				open := stack[len(stack)-1]
				stack = stack[:len(stack)-1]
				inner := s[open+1 : i]
				// is this a call's argument list? then split by commas at top level
				parts := splitTop(inner, ',')
				any := false
				for pi, p := range parts {
					if a, b, ok := splitOp(p, "<==>"); ok {
						parts[pi] = "iff(" + a + ", " + b + ")"
						any = true
					} else if a, b, ok := splitOp(p, "==>"); ok {
						parts[pi] = "imp(" + a + ", " + b + ")"
						any = true
					}
				}
				if any {
					s = s[:open+1] + strings.Join(parts, ",") + s[i:]
					changed = true
				}
			}
			if changed {
				break
			}
		}
		if !changed {
			return s
		}
	}
}

func (e *Env) eval(ex ast.Expr) (SymVal, error) {
	c := e.c
	switch ex := ex.(type) {
	case *ast.ParenExpr:
		return e.eval(ex.X)
	case *ast.BasicLit:
		switch ex.Kind {
		case token.INT:
			v, ok := new(big.Int).SetString(strings.ReplaceAll(ex.Value, "_", ""), 0)
			if !ok {
				return SymVal{}, fmt.Errorf("bad int literal %s", ex.Value)
			}
			if c.bv {
				return SymVal{K: KInt, S: "$lit:" + v.String()}, nil
			}
			return mkMath(intLit(v)), nil
		case token.STRING:
			s, err := strconv.Unquote(ex.Value)
			if err != nil {
				return SymVal{}, err
			}
			return SymVal{K: KStr, S: c.strLit(s)}, nil
		case token.FLOAT:
			f, err := strconv.ParseFloat(ex.Value, 64)
			if err != nil {
				return SymVal{}, err
			}
			return SymVal{K: KFloat, S: fpLit(f)}, nil
		}
	case *ast.Ident:
		return e.ident(ex.Name)
	case *ast.UnaryExpr:
		x, err := e.eval(ex.X)
		if err != nil {
			return SymVal{}, err
		}
		switch ex.Op {
		case token.NOT:
			return mkBool(sNot(x.S)), nil
		case token.SUB:
			if x.K == KFloat {
				return SymVal{K: KFloat, S: app("fp.neg", x.S)}, nil
			}
			if c.bv {
				x = e.fixLit(x, 64)
				return SymVal{K: KInt, T: x.T, S: app("bvneg", x.S)}, nil
			}
			return mkMath(app("-", x.S)), nil
		case token.XOR:
			if c.bv {
				return SymVal{K: KInt, T: x.T, S: app("bvnot", x.S)}, nil
			}
			return mkMath(app("-", app("-", x.S), "1")), nil
		case token.AND:
			return x, nil
		}
	case *ast.StarExpr:
		x, err := e.eval(ex.X)
		if err != nil {
			return SymVal{}, err
		}
		return e.deref(x)
	case *ast.BinaryExpr:
		return e.binary(ex)
	case *ast.SelectorExpr:
		// package-qualified constant? e.g. syntax.PLUS, math.MaxInt32
		if id, ok := ex.X.(*ast.Ident); ok {
			if _, isVar := e.lookup(id.Name); !isVar {
				if v, ok := e.pkgConst(id.Name, ex.Sel.Name); ok {
					return v, nil
				}
			}
		}
		// ghost field of an embedded struct: needs the struct's address
		if ref, t, ok := e.evalAddr(ex.X); ok {
			if gf := c.g.ghostFields[fullTypeKey(t)]; gf != nil {
				if _, ok := gf[ex.Sel.Name]; ok {
					return e.selectField(mkRef(ref, types.NewPointer(t)), ex.Sel.Name)
				}
			}
		}
		x, err := e.eval(ex.X)
		if err != nil {
			return SymVal{}, err
		}
		return e.selectField(x, ex.Sel.Name)
	case *ast.IndexExpr:
		x, err := e.eval(ex.X)
		if err != nil {
			return SymVal{}, err
		}
		i, err := e.eval(ex.Index)
		if err != nil {
			return SymVal{}, err
		}
		return e.index(x, i)
	case *ast.SliceExpr:
		x, err := e.eval(ex.X)
		if err != nil {
			return SymVal{}, err
		}
		if x.K != KSlice {
			return SymVal{}, fmt.Errorf("slicing non-slice in spec")
		}
		lo := c.zeroInt()
		hi := x.Fs[2].S
		if ex.Low != nil {
			v, err := e.eval(ex.Low)
			if err != nil {
				return SymVal{}, err
			}
			lo = v.S
		}
		if ex.High != nil {
			v, err := e.eval(ex.High)
			if err != nil {
				return SymVal{}, err
			}
			hi = v.S
		}
		return SymVal{K: KSlice, T: x.T, Fs: []SymVal{x.Fs[0], mkMath(c.addInt(x.Fs[1].S, lo)), mkMath(c.subInt(hi, lo)), mkMath(c.subInt(x.Fs[3].S, lo))}}, nil
	case *ast.CallExpr:
		return e.call(ex)
	}
	return SymVal{}, fmt.Errorf("unsupported spec expression %T", ex)
}

func (e *Env) lookup(name string) (SymVal, bool) {
	if v, ok := e.vars[name]; ok {
		return v, true
	}
	if strings.HasPrefix(name, "g_") {
		if t, ok := e.st.ghost[name]; ok {
			return mkMath(t), true
		}
		// first use: ghost state starts as an unconstrained entry value
		return mkMath(e.c.ghostEntry(name)), true
	}
	if v, ok := e.c.lookupVarY(e.st, name, e.at, e.atEnd, e.hdr, e.upTo); ok {
		return v, true
	}
	// a variable captured by the closure under analysis (its value when the closure was made)
	if e.calleePkg == "" || e.c.fn.Pkg == nil || e.calleePkg == e.c.fn.Pkg.Pkg.Path() {
		for _, fv := range e.c.fn.FreeVars {
			if fv.Name() == name {
				if v, ok := e.c.vals[fv]; ok {
					if e.c.capturedByRef(fv) {
						locs := e.c.leafLocs(v.S, fv.Type().Underlying().(*types.Pointer).Elem())
						return e.c.loadLocs(e.st, locs, fv.Type().Underlying().(*types.Pointer).Elem()), true
					}
					return v, true
				}
			}
		}
	}
	return SymVal{}, false
}

func (e *Env) ident(name string) (SymVal, error) {
	switch name {
	case "true":
		return mkBool("true"), nil
	case "false":
		return mkBool("false"), nil
	case "nil":
		return SymVal{K: KNilLit}, nil
	case "MIN64":
		return e.lit(new(big.Int).Neg(pow2(63))), nil
	case "MAX64":
		return e.lit(new(big.Int).Sub(pow2(63), big.NewInt(1))), nil
	case "MAXU64":
		return e.lit(new(big.Int).Sub(pow2(64), big.NewInt(1))), nil
	case "MIN32":
		return e.lit(new(big.Int).Neg(pow2(31))), nil
	case "MAX32":
		return e.lit(new(big.Int).Sub(pow2(31), big.NewInt(1))), nil
	case "MAXU32":
		return e.lit(new(big.Int).Sub(pow2(32), big.NewInt(1))), nil
	}
	if v, ok := e.lookup(name); ok {
		return v, nil
	}
	// package-level constant or variable of the function's package
	if v, ok := e.pkgMember(name); ok {
		return v, nil
	}
	return SymVal{}, fmt.Errorf("unknown identifier %q", name)
}

func (e *Env) lit(v *big.Int) SymVal {
	if e.c.bv {
		return SymVal{K: KInt, S: "$lit:" + v.String()}
	}
	return mkMath(intLit(v))
}

// fixLit turns a pending literal into a bit-vector literal of the given width.
func (e *Env) fixLit(v SymVal, bits int) SymVal {
	if strings.HasPrefix(v.S, "$lit:") {
		n, _ := new(big.Int).SetString(v.S[5:], 10)
		v.S = bvLit(n, bits)
	}
	return v
}

func (e *Env) pkgs() []*ssa.Package {
	var out []*ssa.Package
	if e.calleePkg != "" {
		if p := e.c.g.spkgs[e.calleePkg]; p != nil {
			out = append(out, p)
		}
	}
	if e.c.fn.Pkg != nil {
		out = append(out, e.c.fn.Pkg)
	}
	return out
}

func (e *Env) pkgMember(name string) (SymVal, bool) {
	for _, p := range e.pkgs() {
		if m, ok := p.Members[name]; ok {
			switch m := m.(type) {
			case *ssa.NamedConst:
				return e.c.constVal(e.st, m.Value), true
			case *ssa.Global:
				ref := e.c.val(e.st, m)
				pt := m.Type().Underlying().(*types.Pointer).Elem()
				locs := e.c.leafLocs(ref.S, pt)
				return e.c.loadLocs(e.st, locs, pt), true
			}
		}
	}
	return SymVal{}, false
}

// findPkgs resolves a package qualifier: exact path first, then module packages by last element.
func (g *Global) findPkgs(q string) []*ssa.Package {
	var out []*ssa.Package
	if p, ok := g.spkgs[q]; ok {
		out = append(out, p)
	}
	var paths []string
	for path := range g.spkgs {
		if path != q && strings.HasSuffix(path, "/"+q) {
			paths = append(paths, path)
		}
	}
	sort.Slice(paths, func(i, j int) bool {
		mi, mj := strings.HasPrefix(paths[i], "go.starlark.net"), strings.HasPrefix(paths[j], "go.starlark.net")
		if mi != mj {
			return mi
		}
		return paths[i] < paths[j]
	})
	for _, p := range paths {
		out = append(out, g.spkgs[p])
	}
	// module packages shadow std packages of the same name only when written with their path
	return out
}

func (e *Env) pkgConst(pkg, name string) (SymVal, bool) {
	for _, p := range e.c.g.findPkgs(pkg) {
		{
			if m, ok := p.Members[name]; ok {
				if nc, ok := m.(*ssa.NamedConst); ok {
					v := e.c.constVal(e.st, nc.Value)
					if v.K == KInt && !e.c.bv {
						v.T = nil
					}
					return v, true
				}
			}
		}
	}
	return SymVal{}, false
}

// evalAddr: the address (and struct type) denoted by p or p.f1.f2 where p is a pointer and
// the fi are embedded struct fields.
func (e *Env) evalAddr(ex ast.Expr) (string, types.Type, bool) {
	switch ex := ex.(type) {
	case *ast.ParenExpr:
		return e.evalAddr(ex.X)
	case *ast.Ident:
		v, ok := e.lookup(ex.Name)
		if ok && (v.K != KRef || v.T == nil) {
			// a struct variable that lives in memory: its cell's address
			if r, t, ok := e.c.addrOfVar(ex.Name); ok {
				return r, t, true
			}
		}
		if !ok || v.K != KRef || v.T == nil {
			return "", nil, false
		}
		pt, ok := v.T.Underlying().(*types.Pointer)
		if !ok {
			return "", nil, false
		}
		return v.S, pt.Elem(), true
	case *ast.SelectorExpr:
		r, t, ok := e.evalAddr(ex.X)
		if !ok {
			// a pointer-valued field: p.q where q is *T
			v, err := e.eval(ex)
			if err != nil || v.K != KRef || v.T == nil {
				return "", nil, false
			}
			if pt, ok := v.T.Underlying().(*types.Pointer); ok {
				return v.S, pt.Elem(), true
			}
			return "", nil, false
		}
		st, ok := t.Underlying().(*types.Struct)
		if !ok {
			return "", nil, false
		}
		for i := 0; i < st.NumFields(); i++ {
			if st.Field(i).Name() == ex.Sel.Name {
				ft := st.Field(i).Type()
				if kindOf(ft) == KStruct {
					return app("fld", r, fmt.Sprint(i)), ft, true
				}
				if pt, ok := ft.Underlying().(*types.Pointer); ok {
					locs := e.c.fieldLocs(r, typeKey(t), st, i)
					v := e.c.loadLocs(e.st, locs, ft)
					return v.S, pt.Elem(), true
				}
			}
		}
	}
	return "", nil, false
}

func exprString(ex ast.Expr) string {
	switch ex := ex.(type) {
	case *ast.Ident:
		return ex.Name
	case *ast.SelectorExpr:
		return exprString(ex.X) + "." + ex.Sel.Name
	}
	return "?"
}

func (e *Env) deref(x SymVal) (SymVal, error) {
	if x.K != KRef || x.T == nil {
		return SymVal{}, fmt.Errorf("deref of non-pointer in spec")
	}
	pt, ok := x.T.Underlying().(*types.Pointer)
	if !ok {
		return SymVal{}, fmt.Errorf("deref of non-pointer type %s", x.T)
	}
	locs := e.c.leafLocs(x.S, pt.Elem())
	return e.c.loadLocs(e.st, locs, pt.Elem()), nil
}

// selectorLocs resolves root.f1.f2 to heap leaf locations (for modifies clauses).
func (e *Env) selectorLocs(root SymVal, fields []string) ([]leafLoc, bool) {
	cur := root
	for i, f := range fields {
		if cur.K != KRef || cur.T == nil {
			return nil, false
		}
		pt, ok := cur.T.Underlying().(*types.Pointer)
		if !ok {
			return nil, false
		}
		stt := pt.Elem()
		stru, ok := stt.Underlying().(*types.Struct)
		if !ok {
			if gf := e.c.g.ghostFields[fullTypeKey(stt)]; gf != nil && i == len(fields)-1 {
				if srt, ok := gf[f]; ok {
					k, _, gt := e.ghostKind(srt, stt)
					return []leafLoc{{"$ghost:" + fullTypeKey(stt) + "." + f, cur.S, k, gt}}, true
				}
			}
			return nil, false
		}
		idx := -1
		for j := 0; j < stru.NumFields(); j++ {
			if stru.Field(j).Name() == f {
				idx = j
			}
		}
		if idx < 0 {
			if gf := e.c.g.ghostFields[fullTypeKey(stt)]; gf != nil && i == len(fields)-1 {
				if srt, ok := gf[f]; ok {
					k, _, gt := e.ghostKind(srt, stt)
					return []leafLoc{{"$ghost:" + fullTypeKey(stt) + "." + f, cur.S, k, gt}}, true
				}
			}
			return nil, false
		}
		if i == len(fields)-1 {
			return e.c.fieldLocs(cur.S, typeKey(stt), stru, idx), true
		}
		ft := stru.Field(idx).Type()
		switch kindOf(ft) {
		case KRef:
			locs := e.c.fieldLocs(cur.S, typeKey(stt), stru, idx)
			cur = e.c.loadLocs(e.st, locs, ft)
		case KStruct:
			cur = mkRef(app("fld", cur.S, fmt.Sprint(idx)), types.NewPointer(ft))
		default:
			return nil, false
		}
	}
	return nil, false
}

func (e *Env) selectField(x SymVal, name string) (SymVal, error) {
	c := e.c
	switch x.K {
	case KStruct:
		if f, ok := structField(x, name); ok {
			return f, nil
		}
		// promoted through embedded struct
		if x.T != nil {
			st := x.T.Underlying().(*types.Struct)
			for i := 0; i < st.NumFields(); i++ {
				if st.Field(i).Embedded() && x.Fs[i].K == KStruct {
					if f, err := e.selectField(x.Fs[i], name); err == nil {
						return f, nil
					}
				}
			}
		}
		return SymVal{}, fmt.Errorf("no field %s in %s", name, x.T)
	case KRef:
		if x.T == nil {
			return SymVal{}, fmt.Errorf("field %s of untyped ref", name)
		}
		pt, ok := x.T.Underlying().(*types.Pointer)
		if !ok {
			return SymVal{}, fmt.Errorf("field %s of non-pointer %s", name, x.T)
		}
		stt := pt.Elem()
		if gf := c.g.ghostFields[fullTypeKey(stt)]; gf != nil {
			if srt, ok := gf[name]; ok {
				k, ss, gt := e.ghostKind(srt, stt)
				comp := "$ghost:" + fullTypeKey(stt) + "." + name
				c.g.compKT[comp] = compKT{k, gt}
				return SymVal{K: k, T: gt, S: app("select", c.comp(e.st, comp, ss), x.S)}, nil
			}
		}
		stru, ok := stt.Underlying().(*types.Struct)
		if !ok {
			return SymVal{}, fmt.Errorf("field %s of pointer to non-struct %s", name, stt)
		}
		for i := 0; i < stru.NumFields(); i++ {
			f := stru.Field(i)
			if f.Name() == name {
				ft := f.Type()
				if kindOf(ft) == KStruct {
					// value of embedded struct: load all leaves
					ref := app("fld", x.S, fmt.Sprint(i))
					return c.loadLocs(e.st, c.leafLocs(ref, ft), ft), nil
				}
				if _, isArr := ft.Underlying().(*types.Array); isArr {
					return mkRef(app("fld", x.S, fmt.Sprint(i)), types.NewPointer(ft)), nil
				}
				locs := c.fieldLocs(x.S, typeKey(stt), stru, i)
				return c.loadLocs(e.st, locs, ft), nil
			}
		}
		// promoted fields via embedded structs
		for i := 0; i < stru.NumFields(); i++ {
			f := stru.Field(i)
			if f.Embedded() {
				if kindOf(f.Type()) == KStruct {
					sub := mkRef(app("fld", x.S, fmt.Sprint(i)), types.NewPointer(f.Type()))
					if v, err := e.selectField(sub, name); err == nil {
						return v, nil
					}
				}
			}
		}
		return SymVal{}, fmt.Errorf("no field %s in %s", name, stt)
	}
	return SymVal{}, fmt.Errorf("field %s of value kind %d", name, x.K)
}

func (e *Env) index(x, i SymVal) (SymVal, error) {
	c := e.c
	i = e.fixLit(i, 64)
	switch x.K {
	case KSlice:
		et := elemType(x.T)
		if et == nil {
			return SymVal{}, fmt.Errorf("index of slice with unknown element type")
		}
		ref := app("elm", x.Fs[0].S, c.addI(x.Fs[1].S, i.S))
		return c.loadLocs(e.st, c.leafLocs(ref, et), et), nil
	case KStr:
		if c.bv {
			return mkInt(app("(_ int2bv 8)", app("sat", x.S, app("bv2nat", i.S))), types.Typ[types.Uint8]), nil
		}
		return mkMath(app("sat", x.S, i.S)), nil
	case KRef:
		if x.T != nil {
			if pt, ok := x.T.Underlying().(*types.Pointer); ok {
				if arr, ok := pt.Elem().Underlying().(*types.Array); ok {
					ref := app("elm", x.S, c.idxToInt(i.S))
					return c.loadLocs(e.st, c.leafLocs(ref, arr.Elem()), arr.Elem()), nil
				}
			}
		}
	case KTuple:
		if k, ok := isConstInt(i.S); ok && k.IsInt64() && int(k.Int64()) < len(x.Fs) {
			return x.Fs[k.Int64()], nil
		}
	}
	return SymVal{}, fmt.Errorf("unsupported index in spec (kind %d)", x.K)
}

func (e *Env) binary(ex *ast.BinaryExpr) (SymVal, error) {
	c := e.c
	if ex.Op == token.LAND || ex.Op == token.LOR {
		x, err := e.eval(ex.X)
		if err != nil {
			return SymVal{}, err
		}
		y, err := e.eval(ex.Y)
		if err != nil {
			return SymVal{}, err
		}
		if x.K != KBool || y.K != KBool {
			return SymVal{}, fmt.Errorf("&&/|| on non-booleans")
		}
		if ex.Op == token.LAND {
			return mkBool(sAnd(x.S, y.S)), nil
		}
		return mkBool(sOr(x.S, y.S)), nil
	}
	x, err := e.eval(ex.X)
	if err != nil {
		return SymVal{}, err
	}
	y, err := e.eval(ex.Y)
	if err != nil {
		return SymVal{}, err
	}
	// nil literal resolution
	if x.K == KNilLit && y.K != KNilLit {
		x = e.nilLike(y)
	}
	if y.K == KNilLit && x.K != KNilLit {
		y = e.nilLike(x)
	}
	if x.K == KSlice && y.K == KSlice && (ex.Op == token.EQL || ex.Op == token.NEQ) {
		// slice == nil
		r := sEq(x.Fs[0].S, y.Fs[0].S)
		if ex.Op == token.NEQ {
			r = sNot(r)
		}
		return mkBool(r), nil
	}
	if x.K == KInt && y.K == KInt {
		if c.bv {
			return e.bvBinary(ex.Op, x, y)
		}
		switch ex.Op {
		case token.ADD:
			return mkMath(app("+", x.S, y.S)), nil
		case token.SUB:
			return mkMath(app("-", x.S, y.S)), nil
		case token.MUL:
			return mkMath(app("*", x.S, y.S)), nil
		case token.QUO:
			return mkMath(app("tdiv", x.S, y.S)), nil
		case token.REM:
			return mkMath(app("trem", x.S, y.S)), nil
		case token.SHL:
			if k, ok := isConstInt(y.S); ok && k.IsInt64() {
				if kx, ok := isConstInt(x.S); ok {
					return mkMath(intLit(new(big.Int).Lsh(kx, uint(k.Int64())))), nil
				}
				return mkMath(app("*", x.S, pow2(int(k.Int64())).String())), nil
			}
			c.needPow2()
			return mkMath(app("*", x.S, app("pow2", y.S))), nil
		case token.SHR:
			if k, ok := isConstInt(y.S); ok && k.IsInt64() {
				return mkMath(app("div", x.S, pow2(int(k.Int64())).String())), nil
			}
			c.needPow2()
			return mkMath(app("div", x.S, app("pow2", y.S))), nil
		case token.EQL:
			return mkBool(sEq(x.S, y.S)), nil
		case token.NEQ:
			return mkBool(sNot(sEq(x.S, y.S))), nil
		case token.LSS:
			return mkBool(app("<", x.S, y.S)), nil
		case token.LEQ:
			return mkBool(app("<=", x.S, y.S)), nil
		case token.GTR:
			return mkBool(app(">", x.S, y.S)), nil
		case token.GEQ:
			return mkBool(app(">=", x.S, y.S)), nil
		}
		return SymVal{}, fmt.Errorf("unsupported int operator %s in spec", ex.Op)
	}
	if x.K == KReal || y.K == KReal {
		if x.K == KInt {
			x = SymVal{K: KReal, S: app("to_real", x.S)}
		}
		if y.K == KInt {
			y = SymVal{K: KReal, S: app("to_real", y.S)}
		}
		if x.K != KReal || y.K != KReal {
			return SymVal{}, fmt.Errorf("real operator %s on non-numeric operand", ex.Op)
		}
		switch ex.Op {
		case token.ADD:
			return SymVal{K: KReal, S: app("+", x.S, y.S)}, nil
		case token.SUB:
			return SymVal{K: KReal, S: app("-", x.S, y.S)}, nil
		case token.MUL:
			return SymVal{K: KReal, S: app("*", x.S, y.S)}, nil
		case token.EQL:
			return mkBool(sEq(x.S, y.S)), nil
		case token.NEQ:
			return mkBool(sNot(sEq(x.S, y.S))), nil
		case token.LSS:
			return mkBool(app("<", x.S, y.S)), nil
		case token.LEQ:
			return mkBool(app("<=", x.S, y.S)), nil
		case token.GTR:
			return mkBool(app(">", x.S, y.S)), nil
		case token.GEQ:
			return mkBool(app(">=", x.S, y.S)), nil
		}
		return SymVal{}, fmt.Errorf("unsupported real operator %s", ex.Op)
	}
	if x.K == KFloat && y.K == KInt {
		y = e.intToFloat(y)
	}
	if x.K == KInt && y.K == KFloat {
		x = e.intToFloat(x)
	}
	if x.K != y.K {
		return SymVal{}, fmt.Errorf("operands of %s have different kinds (%d vs %d)", ex.Op, x.K, y.K)
	}
	r := c.binop(e.st, ex.Op, x, y, x.T, token.NoPos)
	return r, nil
}

func (e *Env) intToFloat(v SymVal) SymVal {
	if k, ok := isConstInt(v.S); ok {
		f, _ := new(big.Float).SetInt(k).Float64()
		return SymVal{K: KFloat, S: fpLit(f)}
	}
	return SymVal{K: KFloat, S: app("(_ to_fp 11 53)", "RNE", app("to_real", v.S))}
}

func (e *Env) nilLike(v SymVal) SymVal {
	switch v.K {
	case KRef:
		return mkRef("nil", v.T)
	case KIface:
		return mkIface("nilI", v.T)
	case KSlice:
		z := e.c.zeroInt()
		return SymVal{K: KSlice, T: v.T, Fs: []SymVal{{K: KRef, S: "nil"}, mkMath(z), mkMath(z), mkMath(z)}}
	case KOpq:
		return SymVal{K: KOpq, S: "0"}
	}
	return v
}

func (e *Env) call(ex *ast.CallExpr) (SymVal, error) {
	c := e.c
	name := ""
	switch f := ex.Fun.(type) {
	case *ast.Ident:
		name = f.Name
	case *ast.SelectorExpr:
		if id, ok := f.X.(*ast.Ident); ok {
			name = id.Name + "." + f.Sel.Name
		}
	}
	arg := func(i int) (SymVal, error) {
		if i >= len(ex.Args) {
			return SymVal{}, fmt.Errorf("%s: missing argument %d", name, i)
		}
		return e.eval(ex.Args[i])
	}
	switch name {
	case "old":
		oe := e.child()
		oe.st = e.old
		// program variables inside old() still denote their current SSA values (immutable);
		// only heap reads and ghost state move to the old state.
		return oe.eval(ex.Args[0])
	case "imp", "iff":
		a, err := arg(0)
		if err != nil {
			return SymVal{}, err
		}
		b, err := arg(1)
		if err != nil {
			return SymVal{}, err
		}
		if name == "imp" {
			return mkBool(sImp(a.S, b.S)), nil
		}
		return mkBool(app("=", a.S, b.S)), nil
	case "ite":
		cnd, err := arg(0)
		if err != nil {
			return SymVal{}, err
		}
		a, err := arg(1)
		if err != nil {
			return SymVal{}, err
		}
		b, err := arg(2)
		if err != nil {
			return SymVal{}, err
		}
		if a.K == KNilLit {
			a = e.nilLike(b)
		}
		if b.K == KNilLit {
			b = e.nilLike(a)
		}
		if c.bv {
			if strings.HasPrefix(a.S, "$lit:") {
				a = e.fixLit(a, bvWidth(b))
			}
			if strings.HasPrefix(b.S, "$lit:") {
				b = e.fixLit(b, bvWidth(a))
			}
		}
		return iteVal(cnd.S, a, b), nil
	case "len", "cap":
		x, err := arg(0)
		if err != nil {
			return SymVal{}, err
		}
		switch x.K {
		case KSlice:
			if name == "len" {
				return mkMath(x.Fs[2].S), nil
			}
			return mkMath(x.Fs[3].S), nil
		case KStr:
			return mkMath(c.lenOfStr(x)), nil
		}
		return SymVal{}, fmt.Errorf("len of kind %d", x.K)
	case "forall", "exists":
		// forall(i, lo, hi, body): lo <= i < hi
		id, ok := ex.Args[0].(*ast.Ident)
		if !ok || len(ex.Args) != 4 {
			return SymVal{}, fmt.Errorf("%s(i, lo, hi, body)", name)
		}
		lo, err := arg(1)
		if err != nil {
			return SymVal{}, err
		}
		hi, err := arg(2)
		if err != nil {
			return SymVal{}, err
		}
		ce := e.child()
		c.specDepth++
		bn := fmt.Sprintf("%s!q%d", id.Name, c.nfresh)
		c.nfresh++
		srt := "Int"
		if c.bv {
			srt = "(_ BitVec 64)"
			lo, hi = e.fixLit(lo, 64), e.fixLit(hi, 64)
		}
		ce.vars[id.Name] = SymVal{K: KInt, S: bn, T: nil}
		body, err := ce.eval(ex.Args[3])
		c.specDepth--
		if err != nil {
			return SymVal{}, err
		}
		rng := sAnd(c.cmpS("<=", lo.S, bn), c.cmpS("<", bn, hi.S))
		if name == "forall" {
			pats := selectPatterns(body.S, bn)
			if len(pats) > 0 {
				var ps string
				for _, p := range pats {
					ps += " :pattern (" + p + ")"
				}
				return mkBool(fmt.Sprintf("(forall ((%s %s)) (! %s%s))", bn, srt, sImp(rng, body.S), ps)), nil
			}
			return mkBool(fmt.Sprintf("(forall ((%s %s)) %s)", bn, srt, sImp(rng, body.S))), nil
		}
		return mkBool(fmt.Sprintf("(exists ((%s %s)) %s)", bn, srt, sAnd(rng, body.S))), nil
	case "existsint", "forallint":
		id, ok := ex.Args[0].(*ast.Ident)
		if !ok || len(ex.Args) != 2 {
			return SymVal{}, fmt.Errorf("%s(i, body)", name)
		}
		ce := e.child()
		bn := fmt.Sprintf("%s!q%d", id.Name, c.nfresh)
		c.nfresh++
		srt := "Int"
		if c.bv {
			srt = "(_ BitVec 64)"
		}
		ce.vars[id.Name] = SymVal{K: KInt, S: bn, T: nil}
		body, err := ce.eval(ex.Args[1])
		if err != nil {
			return SymVal{}, err
		}
		q := "exists"
		if name == "forallint" {
			q = "forall"
			if pats := selectPatterns(body.S, bn); len(pats) > 0 {
				var ps string
				for _, p := range pats {
					ps += " :pattern (" + p + ")"
				}
				return mkBool(fmt.Sprintf("(forall ((%s %s)) (! %s%s))", bn, srt, body.S, ps)), nil
			}
		}
		return mkBool(fmt.Sprintf("(%s ((%s %s)) %s)", q, bn, srt, body.S)), nil
	case "forallref":
		// forallref(x, *T, body): body holds for every reference x (typed *T inside body)
		id, ok := ex.Args[0].(*ast.Ident)
		if !ok || len(ex.Args) != 3 {
			return SymVal{}, fmt.Errorf("forallref(x, *T, body)")
		}
		t, err := e.typeExpr(ex.Args[1])
		if err != nil {
			return SymVal{}, err
		}
		ce := e.child()
		bn := fmt.Sprintf("%s!q%d", id.Name, c.nfresh)
		c.nfresh++
		ce.vars[id.Name] = SymVal{K: KRef, S: bn, T: t}
		body, err := ce.eval(ex.Args[2])
		if err != nil {
			return SymVal{}, err
		}
		if pats := selectPatterns(body.S, bn); len(pats) > 0 {
			var ps string
			for _, p := range pats {
				ps += " :pattern (" + p + ")"
			}
			return mkBool(fmt.Sprintf("(forall ((%s Ref)) (! %s%s))", bn, body.S, ps)), nil
		}
		return mkBool(fmt.Sprintf("(forall ((%s Ref)) %s)", bn, body.S)), nil
	case "isnil":
		x, err := arg(0)
		if err != nil {
			return SymVal{}, err
		}
		n := e.nilLike(x)
		if x.K == KSlice {
			return mkBool(sEq(x.Fs[0].S, "nil")), nil
		}
		return mkBool(sEq(x.S, n.S)), nil
	case "typeis", "as":
		x, err := arg(0)
		if err != nil {
			return SymVal{}, err
		}
		if x.K != KIface {
			return SymVal{}, fmt.Errorf("%s on non-interface", name)
		}
		t, err := e.typeExpr(ex.Args[1])
		if err != nil {
			return SymVal{}, err
		}
		if name == "typeis" {
			if _, isI := t.Underlying().(*types.Interface); isI {
				return mkBool(app(c.implementsFn(t), app("itag", x.S))), nil
			}
			return mkBool(app("=", app("itag", x.S), fmt.Sprint(c.g.tagOf(t)))), nil
		}
		v := c.unbox(e.st, x.S, t)
		v.T = t
		return v, nil
	case "int", "int64", "int32", "uint", "uint64", "uint32", "uint16", "uint8", "int8", "int16", "byte":
		x, err := arg(0)
		if err != nil {
			return SymVal{}, err
		}
		if c.bv {
			tt := types.Universe.Lookup(name).Type()
			if strings.HasPrefix(x.S, "$lit:") {
				x = e.fixLit(x, bvWidth(SymVal{T: tt}))
				return SymVal{K: KInt, T: tt, S: x.S}, nil
			}
			if x.T == nil {
				return SymVal{}, fmt.Errorf("conversion %s(...) of an untyped bit-vector", name)
			}
			return c.bvConvert(x, x.T, tt), nil
		}
		if x.K == KBool {
			return mkMath(app("b2i", x.S)), nil
		}
		if x.K == KFloat {
			return SymVal{}, fmt.Errorf("float->int conversion in spec: use trunc()")
		}
		return mkMath(x.S), nil // mathematical: conversions do not wrap in specs
	case "wrap64":
		x, err := arg(0)
		if err != nil {
			return SymVal{}, err
		}
		return mkMath(app("wrap_s64", x.S)), nil
	case "wrapu64":
		x, err := arg(0)
		if err != nil {
			return SymVal{}, err
		}
		return mkMath(app("wrap_u64", x.S)), nil
	case "wrapu32":
		x, err := arg(0)
		if err != nil {
			return SymVal{}, err
		}
		return mkMath(app("wrap_u32", x.S)), nil
	case "wrap32":
		x, err := arg(0)
		if err != nil {
			return SymVal{}, err
		}
		return mkMath(app("wrap_s32", x.S)), nil
	case "wrapu16", "wrapu8", "wrap16", "wrap8":
		x, err := arg(0)
		if err != nil {
			return SymVal{}, err
		}
		fn := map[string]string{"wrapu16": "wrap_u16", "wrapu8": "wrap_u8", "wrap16": "wrap_s16", "wrap8": "wrap_s8"}[name]
		return mkMath(app(fn, x.S)), nil
	case "div", "mod", "fdiv", "fmod", "min", "max", "abs":
		var as []string
		for i := range ex.Args {
			a, err := arg(i)
			if err != nil {
				return SymVal{}, err
			}
			as = append(as, a.S)
		}
		op := map[string]string{"div": "div", "mod": "mod", "fdiv": "fdiv", "fmod": "fmod", "min": "imin", "max": "imax", "abs": "iabs"}[name]
		return mkMath(app(op, as...)), nil
	case "xor32", "xor64", "and32", "and64", "or32", "or64":
		// the same uninterpreted bit operators the int-mode encoding of ^ & | uses
		a, err := arg(0)
		if err != nil {
			return SymVal{}, err
		}
		b, err := arg(1)
		if err != nil {
			return SymVal{}, err
		}
		if c.bv {
			return SymVal{}, fmt.Errorf("%s is for arith int only", name)
		}
		ufn := map[string]string{"xor": "bxor", "and": "band", "or": "bor"}[name[:len(name)-2]] + "_" + name[len(name)-2:]
		if c.flags["$uf:"+ufn] == "" {
			c.flags["$uf:"+ufn] = "1"
			fmt.Fprintf(&c.sb, "(declare-fun %s (Int Int) Int)\n", ufn)
		}
		return mkMath(app(ufn, a.S, b.S)), nil
	case "isNaN", "isInf", "isFinite", "isNeg":
		x, err := arg(0)
		if err != nil {
			return SymVal{}, err
		}
		switch name {
		case "isNaN":
			return mkBool(app("fp.isNaN", x.S)), nil
		case "isInf":
			return mkBool(app("fp.isInfinite", x.S)), nil
		case "isNeg":
			return mkBool(app("fp.isNegative", x.S)), nil
		}
		return mkBool(sAnd(sNot(app("fp.isNaN", x.S)), sNot(app("fp.isInfinite", x.S)))), nil
	case "real":
		x, err := arg(0)
		if err != nil {
			return SymVal{}, err
		}
		if x.K == KInt {
			return SymVal{K: KReal, S: app("to_real", x.S)}, nil
		}
		if x.K == KReal {
			return x, nil
		}
		return SymVal{K: KReal, S: app("fp.to_real", x.S), T: nil}, nil
	case "rtz":
		x, err := arg(0)
		if err != nil {
			return SymVal{}, err
		}
		return SymVal{K: KFloat, S: app("fp.roundToIntegral", "RTZ", x.S)}, nil
	case "isIntegral":
		x, err := arg(0)
		if err != nil {
			return SymVal{}, err
		}
		return mkBool(app("fp.eq", app("fp.roundToIntegral", "RTZ", x.S), x.S)), nil
	case "floor":
		// floor of a real, as an Int
		x, err := arg(0)
		if err != nil {
			return SymVal{}, err
		}
		if x.K != KReal {
			return SymVal{}, fmt.Errorf("floor needs a real")
		}
		return mkMath(app("to_int", x.S)), nil
	case "fabs":
		x, err := arg(0)
		if err != nil {
			return SymVal{}, err
		}
		return SymVal{K: KFloat, S: app("fp.abs", x.S)}, nil
	case "frz", "frzmono":
		// ghost set "Freeze has been invoked on": a Bool array over references. Values that are not
		// references (ints, strings, ...) are immutable and count as frozen.
		comp := "$ghost:frz"
		c.g.compKT[comp] = compKT{KBool, nil}
		hn := c.comp(e.st, comp, "Bool")
		if name == "frzmono" {
			ho := c.comp(e.old, comp, "Bool")
			return mkBool(fmt.Sprintf("(forall ((r Ref)) (! (=> (select %s r) (select %s r)) :pattern ((select %s r))))", ho, hn, hn)), nil
		}
		a, err := arg(0)
		if err != nil {
			return SymVal{}, err
		}
		switch a.K {
		case KIface:
			return mkBool(sOr(sEq(app("iref", a.S), "nil"), app("select", hn, app("iref", a.S)))), nil
		case KRef:
			return mkBool(app("select", hn, a.S)), nil
		case KOpq:
			return mkBool(app("select", hn, app("obj", a.S))), nil
		case KSlice:
			return mkBool(app("select", hn, a.Fs[0].S)), nil
		}
		return mkBool("true"), nil
	case "gelem", "gupdate":
		// ghost per-element state of an object: gelem(Type.field, p, i) reads a Bool ghost cell
		// attached to element i of object p; gupdate(Type.field, p, i, v) says that exactly that
		// cell changed (to v) since the old state.
		sel, ok := ex.Args[0].(*ast.SelectorExpr)
		if !ok {
			return SymVal{}, fmt.Errorf("%s(Type.field, p, i[, v])", name)
		}
		comp := "$ghost:" + exprString(sel) + "[]"
		kt, known := c.g.compKT[comp]
		if !known {
			kt = compKT{KBool, nil}
			c.g.compKT[comp] = kt
		}
		gsort := c.sortOf(kt.k, kt.t)
		ref, _, ok := e.evalAddr(ex.Args[1])
		if !ok {
			pv, err := arg(1)
			if err != nil {
				return SymVal{}, err
			}
			if pv.K != KRef {
				return SymVal{}, fmt.Errorf("%s: second argument must denote an object", name)
			}
			ref = pv.S
		}
		iv, err := arg(2)
		if err != nil {
			return SymVal{}, err
		}
		cell := app("elm", ref, iv.S)
		hn := c.comp(e.st, comp, gsort)
		if name == "gelem" {
			return SymVal{K: kt.k, S: app("select", hn, cell)}, nil
		}
		vv, err := arg(3)
		if err != nil {
			return SymVal{}, err
		}
		ho := c.comp(e.old, comp, gsort)
		return mkBool(sEq(hn, app("store", ho, cell, vv.S))), nil
	case "gonly":
		// gonly(Type.field, p): since the old state the ghost array changed at most in the cells of object p
		sel, ok := ex.Args[0].(*ast.SelectorExpr)
		if !ok || len(ex.Args) != 2 {
			return SymVal{}, fmt.Errorf("gonly(Type.field, p)")
		}
		comp := "$ghost:" + exprString(sel) + "[]"
		kt, known := c.g.compKT[comp]
		if !known {
			kt = compKT{KBool, nil}
			c.g.compKT[comp] = kt
		}
		gsort := c.sortOf(kt.k, kt.t)
		ref, _, ok := e.evalAddr(ex.Args[1])
		if !ok {
			pv, err := arg(1)
			if err != nil {
				return SymVal{}, err
			}
			if pv.K != KRef {
				return SymVal{}, fmt.Errorf("gonly: second argument must denote an object")
			}
			ref = pv.S
		}
		hn, ho := c.comp(e.st, comp, gsort), c.comp(e.old, comp, gsort)
		if hn == ho {
			return mkBool("true"), nil
		}
		r, i := c.fresh("qr"), c.fresh("qi")
		return mkBool(fmt.Sprintf("(forall ((%s Ref) (%s Int)) (! (=> (not (= %s %s)) (= (select %s (elm %s %s)) (select %s (elm %s %s)))) :pattern ((select %s (elm %s %s)))))",
			r, i, r, ref, hn, r, i, ho, r, i, hn, r, i)), nil
	case "gsame":
		// gsame(Type.field): the ghost array is unchanged since the old state
		sel, ok := ex.Args[0].(*ast.SelectorExpr)
		if !ok {
			return SymVal{}, fmt.Errorf("gsame(Type.field)")
		}
		comp := "$ghost:" + exprString(sel) + "[]"
		kt, known := c.g.compKT[comp]
		if !known {
			kt = compKT{KBool, nil}
			c.g.compKT[comp] = kt
		}
		gsort := c.sortOf(kt.k, kt.t)
		return mkBool(sEq(c.comp(e.st, comp, gsort), c.comp(e.old, comp, gsort))), nil
	case "strid":
		// an Int token standing for a string value (injective)
		a, err := arg(0)
		if err != nil {
			return SymVal{}, err
		}
		if a.K != KStr {
			return SymVal{}, fmt.Errorf("strid needs a string")
		}
		return mkMath(app("box_str", a.S)), nil
	case "bytesid":
		// an Int token standing for a byte chunk (identity of the slice; contents are not modelled)
		a, err := arg(0)
		if err != nil {
			return SymVal{}, err
		}
		if a.K != KSlice {
			return SymVal{}, fmt.Errorf("bytesid needs a slice")
		}
		if c.flags["$bytesid"] == "" {
			c.flags["$bytesid"] = "1"
			fmt.Fprintf(&c.sb, "(declare-fun bytesid (Ref Int Int) Int)\n")
		}
		return mkMath(app("bytesid", a.Fs[0].S, a.Fs[1].S, a.Fs[2].S)), nil
	case "refof":
		a, err := arg(0)
		if err != nil {
			return SymVal{}, err
		}
		if a.K == KIface {
			return SymVal{K: KRef, S: app("iref", a.S)}, nil
		}
		return a, nil
	case "sub":
		a, err := arg(0)
		if err != nil {
			return SymVal{}, err
		}
		i, err := arg(1)
		if err != nil {
			return SymVal{}, err
		}
		r := a.S
		if a.K == KIface {
			r = app("iref", a.S)
		} else if a.K != KRef {
			return SymVal{K: KRef, S: "nil"}, nil
		}
		return SymVal{K: KRef, S: app("fld", r, i.S)}, nil
	case "only", "unchanged", "mono":
		// only(Type.field, ref): the component changed at most at ref since old state
		// unchanged(Type.field): the component is identical to the old state
		sel, ok := ex.Args[0].(*ast.SelectorExpr)
		if !ok {
			return SymVal{}, fmt.Errorf("%s(Type.field, ...)", name)
		}
		var t types.Type
		tn, ok := sel.X.(*ast.Ident)
		if !ok {
			// pkg.Type.field
			if ps, ok2 := sel.X.(*ast.SelectorExpr); ok2 {
				if tt, err := e.typeExpr(ps); err == nil {
					t = tt
					tn = ps.Sel
					ok = true
				}
			}
			if !ok {
				return SymVal{}, fmt.Errorf("%s(Type.field, ...)", name)
			}
		}
		for _, p := range e.pkgs() {
			if t != nil {
				break
			}
			if o := p.Pkg.Scope().Lookup(tn.Name); o != nil {
				if tnn, ok := o.(*types.TypeName); ok {
					t = tnn.Type()
					break
				}
			}
		}
		if t == nil {
			return SymVal{}, fmt.Errorf("%s: unknown type %s", name, tn.Name)
		}
		stru, ok := t.Underlying().(*types.Struct)
		if !ok {
			return SymVal{}, fmt.Errorf("%s: %s is not a struct", name, tn.Name)
		}
		var locs []leafLoc
		for i := 0; i < stru.NumFields(); i++ {
			if stru.Field(i).Name() == sel.Sel.Name {
				locs = c.fieldLocs("nil", typeKey(t), stru, i)
			}
		}
		if locs == nil {
			return SymVal{}, fmt.Errorf("%s: no field %s", name, sel.Sel.Name)
		}
		var facts []string
		for _, l := range locs {
			srt := c.sortOf(l.k, l.t)
			hn := c.comp(e.st, l.comp, srt)
			ho := c.comp(e.old, l.comp, srt)
			if name == "unchanged" {
				facts = append(facts, sEq(hn, ho))
				continue
			}
			if name == "mono" {
				if l.k != KBool {
					return SymVal{}, fmt.Errorf("mono needs a bool field")
				}
				if hn == ho {
					continue
				}
				facts = append(facts, fmt.Sprintf("(forall ((r Ref)) (! (=> (select %s r) (select %s r)) :pattern ((select %s r))))", ho, hn, hn))
				continue
			}
			r, err := arg(1)
			if err != nil {
				return SymVal{}, err
			}
			rs := r.S
			if r.K == KIface {
				rs = app("iref", r.S)
			} else if r.K != KRef {
				rs = "nil"
			}
			facts = append(facts, sEq(hn, app("store", ho, rs, app("select", hn, rs))))
		}
		return mkBool(sAnd(facts...)), nil
	case "sorted":
		// sorted(s): a []string in non-decreasing order (sle: the byte-wise order on strings,
		// uninterpreted here; only sort.Strings is assumed to establish it)
		a, err := arg(0)
		if err != nil {
			return SymVal{}, err
		}
		if a.K != KSlice {
			return SymVal{}, fmt.Errorf("sorted needs a slice")
		}
		et := elemType(a.T)
		if et == nil || kindOf(et) != KStr {
			return SymVal{}, fmt.Errorf("sorted needs a []string")
		}
		if c.flags["$sle"] == "" {
			c.flags["$sle"] = "1"
			fmt.Fprintf(&c.sb, "(declare-fun sle (Str Str) Bool)\n")
		}
		bn := fmt.Sprintf("i!q%d", c.nfresh)
		c.nfresh++
		comp := "$mem:" + typeKey(et)
		h := c.comp(e.st, comp, "Str")
		at := func(i string) string { return app("select", h, app("elm", a.Fs[0].S, c.addI(a.Fs[1].S, i))) }
		return mkBool(fmt.Sprintf("(forall ((%s Int)) (! (=> (and (<= 0 %s) (< (+ %s 1) %s)) (sle %s %s)) :pattern (%s)))", bn, bn, bn, a.Fs[2].S, at(bn), at(app("+", bn, "1")), at(bn))), nil
	case "isNone":
		a, err := arg(0)
		if err != nil {
			return SymVal{}, err
		}
		t := c.lookupTypeNameIn("go.starlark.net/starlark", "NoneType")
		if t == nil {
			return SymVal{}, fmt.Errorf("NoneType not found")
		}
		return mkBool(app("=", a.S, app("mkI", fmt.Sprint(c.g.tagOf(t)), "0", "nil"))), nil
	case "sametag":
		a, err := arg(0)
		if err != nil {
			return SymVal{}, err
		}
		b, err := arg(1)
		if err != nil {
			return SymVal{}, err
		}
		return mkBool(app("=", app("itag", a.S), app("itag", b.S))), nil
	case "sign":
		x, err := arg(0)
		if err != nil {
			return SymVal{}, err
		}
		z := "0"
		if x.K == KReal {
			z = "0.0"
		}
		return mkMath(sIte(app("<", x.S, z), "(- 1)", sIte(app("=", x.S, z), "0", "1"))), nil
	case "trunc":
		// mathematical truncation toward zero of a finite float, as an Int
		x, err := arg(0)
		if err != nil {
			return SymVal{}, err
		}
		// to_int is floor; toward zero = floor for r >= 0, -floor(-r) otherwise; the argument is integral
		// already (RTZ), so floor is exact.
		r := app("fp.to_real", app("fp.roundToIntegral", "RTZ", x.S))
		return mkMath(app("to_int", r)), nil
	case "freshobj":
		// freshobj(p): p (a pointer, or the backing array of a slice) was allocated after function entry
		x, err := arg(0)
		if err != nil {
			return SymVal{}, err
		}
		r := x.S
		if x.K == KSlice {
			r = x.Fs[0].S
		}
		return mkBool(app(">", app("rootid", r), e.old.top)), nil
	case "calleralloc":
		// calleralloc(p): p was allocated by the activation being verified (at a call site: by the caller)
		x, err := arg(0)
		if err != nil {
			return SymVal{}, err
		}
		r := x.S
		if x.K == KSlice {
			r = x.Fs[0].S
		}
		alts := []string{app(">", app("rootid", r), "top!0")}
		// a closure's captured variables are cells of the activation that created it
		if x.K == KRef && x.T != nil {
			for _, fv := range c.fn.FreeVars {
				if types.Identical(fv.Type(), x.T) {
					if v, ok := c.vals[fv]; ok {
						alts = append(alts, sEq(r, v.S))
					}
				}
			}
		}
		return mkBool(sOr(alts...)), nil
	case "storeof":
		x, err := arg(0)
		if err != nil {
			return SymVal{}, err
		}
		if x.K != KSlice {
			return SymVal{}, fmt.Errorf("storeof needs a slice")
		}
		return SymVal{K: KRef, S: x.Fs[0].S}, nil
	case "memid":
		// memid(T): an Int token for the current contents of the memory component holding
		// escaped cells / slice elements of type T. Equal contents give equal tokens; nothing
		// else is known about the token.
		t, err := e.typeExpr(ex.Args[0])
		if err != nil {
			return SymVal{}, err
		}
		locs := c.leafLocs("nil", t)
		if len(locs) != 1 {
			return SymVal{}, fmt.Errorf("memid needs a single-leaf type")
		}
		srt := c.sortOf(locs[0].k, locs[0].t)
		fn := smtName("memid!" + srt)
		if !c.implDone[fn] {
			c.implDone[fn] = true
			fmt.Fprintf(&c.sb, "(declare-fun %s ((Array Ref %s)) Int)\n", fn, srt)
		}
		return mkMath(app(fn, c.comp(e.st, locs[0].comp, srt))), nil
	case "captured":
		// captured(x): the current content of a variable the closure under analysis captured by
		// reference (what a nested closure or a deferred call will read)
		id, ok := ex.Args[0].(*ast.Ident)
		if !ok || len(ex.Args) != 1 {
			return SymVal{}, fmt.Errorf("captured(name)")
		}
		for _, fv := range c.fn.FreeVars {
			if fv.Name() == id.Name {
				v, ok := c.vals[fv]
				if !ok {
					break
				}
				if c.capturedByRef(fv) {
					et := fv.Type().Underlying().(*types.Pointer).Elem()
					return c.loadLocs(e.st, c.leafLocs(v.S, et), et), nil
				}
				return v, nil
			}
		}
		// a variable of the function under analysis that lives in a heap cell because closures
		// of this function capture it
		for i := range c.dbg[id.Name] {
			d := &c.dbg[id.Name][i]
			if al, ok := d.v.(*ssa.Alloc); ok && d.isAddr {
				if _, defined := c.vals[al]; defined {
					locs, t := c.addrLocs(e.st, al)
					return c.loadLocs(e.st, locs, t), nil
				}
			}
		}
		for _, b := range c.fn.Blocks {
			for _, in := range b.Instrs {
				if al, ok := in.(*ssa.Alloc); ok && al.Comment == id.Name && al.Heap {
					if _, defined := c.vals[al]; defined {
						locs, t := c.addrLocs(e.st, al)
						return c.loadLocs(e.st, locs, t), nil
					}
				}
			}
		}
		return SymVal{}, fmt.Errorf("captured: %s is not a captured variable", id.Name)
	case "typetag":
		// typetag(T): the dynamic-type tag interfaces holding a T carry
		t, err := e.typeExpr(ex.Args[0])
		if err != nil {
			return SymVal{}, err
		}
		return mkMath(fmt.Sprint(c.g.tagOf(t))), nil
	case "tagof":
		// tagof(x): the dynamic-type tag of interface value x
		x, err := arg(0)
		if err != nil {
			return SymVal{}, err
		}
		if x.K != KIface {
			return SymVal{}, fmt.Errorf("tagof needs an interface value")
		}
		return mkMath(app("itag", x.S)), nil
	case "inpkg":
		// inpkg(name): the function under analysis belongs to the package with that (last path element) name
		id, ok := ex.Args[0].(*ast.Ident)
		if !ok || len(ex.Args) != 1 {
			return SymVal{}, fmt.Errorf("inpkg(name)")
		}
		if c.fn.Pkg != nil && c.fn.Pkg.Pkg.Name() == id.Name {
			return mkBool("true"), nil
		}
		if p := c.fn.Parent(); p != nil && p.Pkg != nil && p.Pkg.Pkg.Name() == id.Name {
			return mkBool("true"), nil
		}
		return mkBool("false"), nil
	case "param":
		// param(x): the value the parameter x had on entry, even where an inner declaration shadows it
		id, ok := ex.Args[0].(*ast.Ident)
		if !ok || len(ex.Args) != 1 {
			return SymVal{}, fmt.Errorf("param(name)")
		}
		if e.atCall {
			if v, ok := e.vars[id.Name]; ok {
				return v, nil
			}
		}
		if v, ok := c.paramVals[id.Name]; ok {
			return v, nil
		}
		return SymVal{}, fmt.Errorf("param: no parameter %s", id.Name)
	case "sameslice":
		// sameslice(a, b): the two slice headers are identical (store, offset, length, capacity)
		a, err := arg(0)
		if err != nil {
			return SymVal{}, err
		}
		b, err := arg(1)
		if err != nil {
			return SymVal{}, err
		}
		if a.K != KSlice || b.K != KSlice {
			return SymVal{}, fmt.Errorf("sameslice needs two slices")
		}
		return mkBool(sAnd(sEq(a.Fs[0].S, b.Fs[0].S), sEq(a.Fs[1].S, b.Fs[1].S), sEq(a.Fs[2].S, b.Fs[2].S), sEq(a.Fs[3].S, b.Fs[3].S))), nil
	case "rootof":
		x, err := arg(0)
		if err != nil {
			return SymVal{}, err
		}
		r := x.S
		if x.K == KSlice {
			r = x.Fs[0].S
		}
		return mkMath(app("rootid", r)), nil
	}
	// spec functions
	if sf, ok := c.g.cs.SpecFns[name]; ok {
		return e.callSpecFn(sf, ex)
	}
	return SymVal{}, fmt.Errorf("unknown spec function %q", name)
}

func bvWidth(v SymVal) int {
	if v.T != nil {
		if b, _, ok := intInfo(v.T); ok {
			return b
		}
	}
	return 64
}

func (e *Env) typeExpr(ex ast.Expr) (types.Type, error) {
	switch ex := ex.(type) {
	case *ast.StarExpr:
		t, err := e.typeExpr(ex.X)
		if err != nil {
			return nil, err
		}
		return types.NewPointer(t), nil
	case *ast.Ident:
		if o := types.Universe.Lookup(ex.Name); o != nil {
			if tn, ok := o.(*types.TypeName); ok {
				return tn.Type(), nil
			}
		}
		for _, p := range e.pkgs() {
			if o := p.Pkg.Scope().Lookup(ex.Name); o != nil {
				if tn, ok := o.(*types.TypeName); ok {
					return tn.Type(), nil
				}
			}
		}
	case *ast.SelectorExpr:
		if id, ok := ex.X.(*ast.Ident); ok {
			for _, p := range e.c.g.findPkgs(id.Name) {
				{
					if o := p.Pkg.Scope().Lookup(ex.Sel.Name); o != nil {
						if tn, ok := o.(*types.TypeName); ok {
							return tn.Type(), nil
						}
					}
				}
			}
		}
	case *ast.ArrayType:
		if ex.Len == nil {
			t, err := e.typeExpr(ex.Elt)
			if err != nil {
				return nil, err
			}
			return types.NewSlice(t), nil
		}
	}
	return nil, fmt.Errorf("unknown type in spec: %v", ex)
}

// ghostKind maps the declared sort of a ghost field (int, bool, real, iface, ref, or *T for a
// typed reference to a struct of the owner's package) to its kind, SMT sort and Go type.
func (e *Env) ghostKind(srt string, owner types.Type) (Kind, string, types.Type) {
	switch srt {
	case "bool":
		return KBool, "Bool", nil
	case "real":
		return KReal, "Real", nil
	case "iface":
		return KIface, "Iface", nil
	case "ref":
		return KRef, "Ref", nil
	}
	if strings.HasPrefix(srt, "*") {
		if n, ok := owner.(*types.Named); ok && n.Obj().Pkg() != nil {
			if o := n.Obj().Pkg().Scope().Lookup(srt[1:]); o != nil {
				return KRef, "Ref", types.NewPointer(o.Type())
			}
		}
		return KRef, "Ref", nil
	}
	return KInt, "Int", nil
}

func (e *Env) typeExprText(s string) (types.Type, error) {
	ex, err := parser.ParseExpr(s)
	if err != nil {
		return nil, err
	}
	return e.typeExpr(ex)
}

func (e *Env) specSort(tn string) (string, Kind) {
	switch tn {
	case "int":
		if e.c.bv {
			return "(_ BitVec 64)", KInt
		}
		return "Int", KInt
	case "bool":
		return "Bool", KBool
	case "float":
		return sortFP, KFloat
	case "string":
		return "Str", KStr
	case "real":
		return "Real", KReal
	case "ref":
		return "Ref", KRef
	case "iface":
		return "Iface", KIface
	}
	if t := specIntType(tn); t != nil {
		bits, _, _ := intInfo(t)
		if e.c.bv {
			return fmt.Sprintf("(_ BitVec %d)", bits), KInt
		}
		return "Int", KInt
	}
	return "", KOpq
}

// specIntType maps the fixed-width spec sorts u8..u64 / i8..i64 to Go types.
func specIntType(tn string) types.Type {
	m := map[string]types.BasicKind{"u8": types.Uint8, "u16": types.Uint16, "u32": types.Uint32, "u64": types.Uint64,
		"i8": types.Int8, "i16": types.Int16, "i32": types.Int32, "i64": types.Int64}
	if k, ok := m[tn]; ok {
		return types.Typ[k]
	}
	return nil
}

func (e *Env) callSpecFn(sf *SpecFn, ex *ast.CallExpr) (SymVal, error) {
	c := e.c
	if len(ex.Args) != len(sf.Params) {
		return SymVal{}, fmt.Errorf("specfn %s: want %d args", sf.Name, len(sf.Params))
	}
	var args []SymVal
	for i, a := range ex.Args {
		v, err := e.eval(a)
		if err != nil {
			return SymVal{}, err
		}
		if id, ok := a.(*ast.Ident); ok && v.K == KStruct && sf.Params[i].Type == "any" {
			// a struct variable that lives in memory is passed to spec functions by reference,
			// so that ghost state attached to the object can be named
			if r, t, ok := c.addrOfVar(id.Name); ok {
				v = mkRef(r, types.NewPointer(t))
			}
		}
		if c.bv {
			w := 64
			if t := specIntType(sf.Params[i].Type); t != nil {
				w, _, _ = intInfo(t)
				v = e.fixLit(v, w)
				if v.K == KInt {
					v.T = t
				}
			} else {
				v = e.fixLit(v, w)
			}
		}
		args = append(args, v)
	}
	if sf.Body != "" && sf.Rec {
		name := smtName("spec!" + sf.Name)
		rs, rk := e.specSort(sf.Result)
		if rs == "" {
			return SymVal{}, fmt.Errorf("specfn rec %s: unsupported result sort %q", sf.Name, sf.Result)
		}
		if !c.specFnDeclared[name] {
			c.specFnDeclared[name] = true
			ce := &Env{c: c, st: e.st, old: e.old, vars: map[string]SymVal{}, calleePkg: sf.Pkg, bound: map[string]bool{}}
			var ps []string
			for _, p := range sf.Params {
				srt, k := e.specSort(p.Type)
				if srt == "" {
					return SymVal{}, fmt.Errorf("specfn rec %s: parameter %s must have a scalar spec sort", sf.Name, p.Name)
				}
				sym := smtName("rp!" + sf.Name + "!" + p.Name)
				ce.vars[p.Name] = SymVal{K: k, S: sym}
				ps = append(ps, fmt.Sprintf("(%s %s)", sym, srt))
			}
			body, err := ce.evalText(sf.Body)
			if err != nil {
				return SymVal{}, fmt.Errorf("specfn rec %s: %v", sf.Name, err)
			}
			fmt.Fprintf(&c.sb, "(define-fun-rec %s (%s) %s %s)\n", name, strings.Join(ps, " "), rs, body.S)
		}
		var argTerms []string
		for _, a := range args {
			argTerms = append(argTerms, a.S)
		}
		return SymVal{K: rk, S: app(name, argTerms...)}, nil
	}
	if sf.Body != "" {
		ce := &Env{c: c, st: e.st, old: e.old, vars: map[string]SymVal{}, calleePkg: sf.Pkg, bound: map[string]bool{}}
		for i, p := range sf.Params {
			ce.vars[p.Name] = args[i]
		}
		if c.specDepth > 40 {
			return SymVal{}, fmt.Errorf("specfn recursion too deep in %s", sf.Name)
		}
		c.specDepth++
		defer func() { c.specDepth-- }()
		rv, err := ce.evalText(sf.Body)
		if err == nil && c.bv && rv.K == KInt {
			if t := specIntType(sf.Result); t != nil {
				w, _, _ := intInfo(t)
				rv = ce.fixLit(rv, w)
				rv.T = t
			}
		}
		return rv, err
	}
	// uninterpreted: declare with flattened argument sorts
	var argSorts, argTerms []string
	for _, a := range args {
		for _, f := range flatten(a) {
			argSorts = append(argSorts, c.sortOf(f.K, f.T))
			argTerms = append(argTerms, f.S)
		}
	}
	rs, rk := e.specSort(sf.Result)
	if rs == "" {
		return SymVal{}, fmt.Errorf("specfn %s: unsupported result sort %q", sf.Name, sf.Result)
	}
	name := smtName("spec!" + sf.Name)
	sig := name + strings.Join(argSorts, ",")
	if !c.specFnDeclared[sig] {
		if c.specFnDeclared[name] {
			return SymVal{}, fmt.Errorf("specfn %s used at two different sorts", sf.Name)
		}
		c.specFnDeclared[sig] = true
		c.specFnDeclared[name] = true
		fmt.Fprintf(&c.sb, "(declare-fun %s (%s) %s)\n", name, strings.Join(argSorts, " "), rs)
	}
	return SymVal{K: rk, S: app(name, argTerms...)}, nil
}


// selectPatterns returns the array reads "(select A idx)" of body whose index mentions the bound
// variable bn and that contain no nested read of that kind: E-matching triggers for quantified
// array facts (at most 3).
func selectPatterns(body, bn string) []string {
	var out []string
	seen := map[string]bool{}
	for i := 0; i+8 < len(body); i++ {
		if !strings.HasPrefix(body[i:], "(select ") {
			continue
		}
		// find the matching close paren
		d := 0
		end := -1
		inBar := false
		for j := i; j < len(body); j++ {
			ch := body[j]
			if ch == '|' {
				inBar = !inBar
			}
			if inBar {
				continue
			}
			if ch == '(' {
				d++
			} else if ch == ')' {
				d--
				if d == 0 {
					end = j + 1
					break
				}
			}
		}
		if end < 0 {
			continue
		}
		t := body[i:end]
		if !strings.Contains(t, bn) || seen[t] {
			continue
		}
		// skip terms that contain another quantifier or arithmetic-only use? keep simple: must not contain "forall"
		if strings.Contains(t, "(forall ") || strings.Contains(t, "(exists ") {
			continue
		}
		// prefer innermost: if a proper sub-term of t is itself a read mentioning bn, skip t
		nested := false
		for k := 1; k+8 < len(t); k++ {
			if !strings.HasPrefix(t[k:], "(select ") {
				continue
			}
			d2, e2 := 0, -1
			for j := k; j < len(t); j++ {
				if t[j] == '(' {
					d2++
				} else if t[j] == ')' {
					d2--
					if d2 == 0 {
						e2 = j + 1
						break
					}
				}
			}
			if e2 > 0 && strings.Contains(t[k:e2], bn) {
				nested = true
				break
			}
		}
		if nested {
			continue
		}
		// other bound variables (of enclosing quantifiers) make the pattern ill-scoped only if they are not in scope; they are.
		seen[t] = true
		out = append(out, t)
		if len(out) == 3 {
			break
		}
	}
	return out
}

// capturedByRef: the free variable holds the address of the captured variable (go/ssa captures
// by reference variables that are shared with an enclosing closure); recognised by an enclosing
// function having a parameter, receiver or free variable of that name whose type is the pointee.
func (c *fnCtx) capturedByRef(fv *ssa.FreeVar) bool {
	pt, ok := fv.Type().Underlying().(*types.Pointer)
	if !ok {
		return false
	}
	for p := c.fn.Parent(); p != nil; p = p.Parent() {
		for _, q := range p.Params {
			if q.Name() == fv.Name() && types.Identical(q.Type(), pt.Elem()) {
				return true
			}
		}
		for _, q := range p.FreeVars {
			if q.Name() == fv.Name() && types.Identical(q.Type(), pt.Elem()) {
				return true
			}
		}
		// a local of the enclosing function that lives in a heap cell
		for _, b := range p.Blocks {
			for _, in := range b.Instrs {
				if al, ok := in.(*ssa.Alloc); ok && al.Comment == fv.Name() && types.Identical(al.Type(), fv.Type()) {
					return true
				}
			}
		}
	}
	return false
}
