package main

import (
	"fmt"
	"go/token"
	"go/types"
	"strings"

	"golang.org/x/tools/go/ssa"
)

// protect / monotone declarations (package level):
//
//   //@ protect [C04,C06] List.elems, List.elems[*] : !owner.frozen && owner.itercount == 0
//   //@ monotone [C04] List.frozen : true
//
// protect: at every store in the module whose address is the named field (or
// an element of the slice loaded from it) of an object that existed when the
// function was entered, the guard must hold. monotone: the only value ever
// stored into the field is the given constant.

type protectDecl struct {
	typ    string // struct type name, package-local
	pkg    string
	field  string
	elems  bool
	guard  string
	props  []string
	pos    string
	mono   bool
	direct bool // "direct" protect: also applies to fresh objects
}

func (g *Global) parseProtects() {
	for _, d := range g.cs.Decls {
		if d.Kind != "protect" && d.Kind != "monotone" {
			continue
		}
		i := strings.Index(d.Text, " : ")
		if i < 0 {
			continue
		}
		targets, guard := d.Text[:i], strings.TrimSpace(d.Text[i+3:])
		for _, t := range strings.Split(targets, ",") {
			t = strings.TrimSpace(t)
			if t == "" {
				continue
			}
			pd := protectDecl{pkg: d.Pkg, guard: guard, props: d.Props, pos: d.Pos, mono: d.Kind == "monotone"}
			if strings.HasSuffix(t, "[*]") {
				pd.elems = true
				t = strings.TrimSuffix(t, "[*]")
			}
			if strings.HasPrefix(t, "$mem:") {
				pd.typ, pd.field = t, ""
				g.protects = append(g.protects, pd)
				continue
			}
			j := strings.Index(t, ".")
			if j < 0 {
				continue
			}
			pd.typ, pd.field = t[:j], t[j+1:]
			g.protects = append(g.protects, pd)
		}
	}
}

func (g *Global) protectsFor(st types.Type, field string, elems bool) []protectDecl {
	n, ok := st.(*types.Named)
	if !ok || n.Obj().Pkg() == nil {
		return nil
	}
	var out []protectDecl
	for _, p := range g.protects {
		if p.pkg == n.Obj().Pkg().Path() && p.typ == n.Obj().Name() && p.field == field && p.elems == elems {
			out = append(out, p)
		}
	}
	if len(out) == 0 && !elems {
		// T.* : a rule for every field of T that has no rule of its own
		for _, p := range g.protects {
			if p.pkg == n.Obj().Pkg().Path() && p.typ == n.Obj().Name() && p.field == "*" && !p.elems {
				q := p
				q.field = field
				out = append(out, q)
			}
		}
	}
	return out
}

// fieldOrigin: if v is the address of field f of struct pointer X, return (X, T, f).
func fieldOrigin(v ssa.Value) (ssa.Value, types.Type, string, bool) {
	fa, ok := v.(*ssa.FieldAddr)
	if !ok {
		return nil, nil, "", false
	}
	st := fa.X.Type().Underlying().(*types.Pointer).Elem()
	stru := st.Underlying().(*types.Struct)
	return fa.X, st, stru.Field(fa.Field).Name(), true
}

// sliceOrigin traces a slice value back to the load of a struct field.
func sliceOrigin(v ssa.Value) (ssa.Value, types.Type, string, bool) {
	return sliceOrigin1(v, map[ssa.Value]bool{})
}

func sliceOrigin1(v ssa.Value, seen map[ssa.Value]bool) (ssa.Value, types.Type, string, bool) {
	for depth := 0; depth < 8; depth++ {
		if seen[v] {
			return nil, nil, "", false
		}
		seen[v] = true
		switch x := v.(type) {
		case *ssa.Slice:
			v = x.X
		case *ssa.ChangeType:
			v = x.X
		case *ssa.UnOp:
			if x.Op != token.MUL {
				return nil, nil, "", false
			}
			return fieldOrigin(x.X)
		case *ssa.Phi:
			// all edges must agree on the origin
			var ow ssa.Value
			var ot types.Type
			var of string
			for i, e := range x.Edges {
				if seen[e] {
					continue
				}
				o, t, f, ok := sliceOrigin1(e, seen)
				if !ok {
					return nil, nil, "", false
				}
				_ = i
				if ow == nil {
					ow, ot, of = o, t, f
				} else if o != ow || f != of {
					return nil, nil, "", false
				}
			}
			return ow, ot, of, ow != nil
		default:
			return nil, nil, "", false
		}
	}
	return nil, nil, "", false
}

func (c *fnCtx) protectGoal(st *State, owner ssa.Value, pd protectDecl) (string, error) {
	ov := c.val(st, owner)
	env := c.newEnv(st, c.entry)
	env.calleePkg = pd.pkg
	env.vars["owner"] = ov
	g, err := env.evalBool(pd.guard)
	if err != nil {
		return "", err
	}
	// objects allocated in this activation are not yet shared: exempt
	return sOr(app(">", app("rootid", ov.S), "top!0"), g), nil
}

// protectStore emits frame obligations for stores into protected fields.
func (c *fnCtx) protectStore(st *State, in *ssa.Store) {
	if len(c.g.protects) == 0 {
		return
	}
	// direct field store
	if owner, stt, f, ok := fieldOrigin(in.Addr); ok && !c.g.escField[typeKey(stt)+"."+f] {
		for _, pd := range c.g.protectsFor(stt, f, false) {
			if pd.mono {
				v := c.val(st, in.Val)
				env := c.newEnv(st, c.entry)
				env.vars["value"] = v
				env.vars["owner"] = c.val(st, owner)
				g, err := env.evalBool(pd.guard)
				if err != nil {
					c.note("monotone %s: %v", pd.pos, err)
					continue
				}
				c.oblige(st, "monotone:"+pd.typ+"."+pd.field, g, "only "+pd.guard+" is stored into "+pd.typ+"."+pd.field, pd.props, in.Pos())
				continue
			}
			g, err := c.protectGoal(st, owner, pd)
			if err != nil {
				c.note("protect %s: %v", pd.pos, err)
				continue
			}
			c.oblige(st, "frame:"+pd.typ+"."+pd.field, g, "store to "+pd.typ+"."+pd.field+" requires "+pd.guard, pd.props, in.Pos())
		}
		return
	}
	// component-level protects ($mem:T): any store landing in that component
	for _, comp := range c.staticStoreComps(in.Addr) {
		for _, pd := range c.g.protects {
			if pd.typ != comp {
				continue
			}
			env := c.newEnv(st, c.entry)
			env.calleePkg = pd.pkg
			g, err := env.evalBool(pd.guard)
			if err != nil {
				c.oblige(st, "frame:"+comp, "false", "store to "+comp+" outside a context where the guard can be stated: "+err.Error(), pd.props, in.Pos())
				continue
			}
			if rootsAtLocalAlloc(in.Addr) {
				continue
			}
			c.oblige(st, "frame:"+comp, g, "store to "+comp+" requires "+pd.guard, pd.props, in.Pos())
		}
	}
	// element store
	if ia, ok := in.Addr.(*ssa.IndexAddr); ok {
		if owner, stt, f, ok := sliceOrigin(ia.X); ok {
			for _, pd := range c.g.protectsFor(stt, f, true) {
				g, err := c.protectGoal(st, owner, pd)
				if err != nil {
					c.note("protect %s: %v", pd.pos, err)
					continue
				}
				c.oblige(st, "frame:"+pd.typ+"."+pd.field+"[]", g, "store to an element of "+pd.typ+"."+pd.field+" requires "+pd.guard, pd.props, in.Pos())
			}
		}
	}
}

// protectCall: builtins (append/copy/clear) and callees that may write the
// elements of a protected slice passed to them.
func (c *fnCtx) protectCall(st *State, cc *ssa.CallCommon, pos token.Pos) {
	if len(c.g.protects) == 0 {
		return
	}
	check := func(arg ssa.Value, what string) {
		if _, isSl := arg.Type().Underlying().(*types.Slice); !isSl {
			return
		}
		owner, stt, f, ok := sliceOrigin(arg)
		if !ok {
			return
		}
		for _, pd := range c.g.protectsFor(stt, f, true) {
			g, err := c.protectGoal(st, owner, pd)
			if err != nil {
				c.note("protect %s: %v", pd.pos, err)
				continue
			}
			c.oblige(st, "frame:"+pd.typ+"."+pd.field+"[]", g, what+" may write elements of "+pd.typ+"."+pd.field+": requires "+pd.guard, pd.props, pos)
		}
	}
	if b, ok := cc.Value.(*ssa.Builtin); ok {
		switch b.Name() {
		case "append", "copy", "clear":
			if len(cc.Args) > 0 {
				check(cc.Args[0], b.Name())
			}
		}
		return
	}
	// other callees: only if they may modify the element component
	var elemArgs []ssa.Value
	for _, a := range cc.Args {
		if _, isSl := a.Type().Underlying().(*types.Slice); isSl {
			if _, _, _, ok := sliceOrigin(a); ok {
				elemArgs = append(elemArgs, a)
			}
		}
	}
	if len(elemArgs) == 0 {
		return
	}
	mods, all := c.callMods(cc)
	for _, a := range elemArgs {
		et := elemType(a.Type())
		hit := all
		for _, l := range c.leafLocs("nil", et) {
			for _, m := range mods {
				if m == l.comp {
					hit = true
				}
			}
		}
		if hit {
			check(a, fmt.Sprintf("call at %s", c.posStr(pos)))
		}
	}
}

// touchesProtected reports whether fn contains an instruction that protect /
// monotone declarations apply to (cheap syntactic pre-filter).
func (g *Global) touchesProtected(fn *ssa.Function) bool {
	if len(g.protects) == 0 {
		return false
	}
	for _, b := range fn.Blocks {
		for _, in := range b.Instrs {
			switch in := in.(type) {
			case *ssa.Store:
				for _, comp := range g.storeComps(in.Addr) {
					for _, pd := range g.protects {
						if pd.typ == comp && !rootsAtLocalAlloc(in.Addr) {
							return true
						}
					}
				}
				if _, stt, f, ok := fieldOrigin(in.Addr); ok {
					if len(g.protectsFor(stt, f, false)) > 0 {
						return true
					}
				}
				if ia, ok := in.Addr.(*ssa.IndexAddr); ok {
					if _, stt, f, ok := sliceOrigin(ia.X); ok && len(g.protectsFor(stt, f, true)) > 0 {
						return true
					}
				}
			case ssa.CallInstruction:
				for _, a := range in.Common().Args {
					if _, isSl := a.Type().Underlying().(*types.Slice); isSl {
						if _, stt, f, ok := sliceOrigin(a); ok && len(g.protectsFor(stt, f, true)) > 0 {
							return true
						}
					}
				}
			}
		}
	}
	return false
}
