package main

import (
	"golang.org/x/tools/go/ssa"
)

// protectStore emits frame obligations for stores into protected fields.
func (c *fnCtx) protectStore(st *State, in *ssa.Store) {
}
