package main

import (
	"fmt"
	"math/big"
	"strings"
)

// SMT terms are plain strings (S-expressions). A handful of smart
// constructors keep the generated text small and readable.

func app(op string, args ...string) string {
	return "(" + op + " " + strings.Join(args, " ") + ")"
}

func sAnd(args ...string) string {
	var out []string
	for _, a := range args {
		if a == "true" || a == "" {
			continue
		}
		if a == "false" {
			return "false"
		}
		out = append(out, a)
	}
	switch len(out) {
	case 0:
		return "true"
	case 1:
		return out[0]
	}
	return app("and", out...)
}

func sOr(args ...string) string {
	var out []string
	for _, a := range args {
		if a == "false" || a == "" {
			continue
		}
		if a == "true" {
			return "true"
		}
		out = append(out, a)
	}
	switch len(out) {
	case 0:
		return "false"
	case 1:
		return out[0]
	}
	return app("or", out...)
}

func sNot(a string) string {
	switch a {
	case "true":
		return "false"
	case "false":
		return "true"
	}
	if strings.HasPrefix(a, "(not ") && balancedTail(a[5:len(a)-1]) {
		return a[5 : len(a)-1]
	}
	return app("not", a)
}

// balancedTail reports whether s is a single balanced term.
func balancedTail(s string) bool {
	depth := 0
	for i, c := range s {
		switch c {
		case '(':
			depth++
		case ')':
			depth--
			if depth < 0 {
				return false
			}
			if depth == 0 && i != len(s)-1 {
				return false
			}
		case ' ':
			if depth == 0 {
				return false
			}
		}
	}
	return depth == 0
}

func sImp(a, b string) string {
	if a == "true" {
		return b
	}
	if a == "false" || b == "true" {
		return "true"
	}
	return app("=>", a, b)
}

func sIte(c, a, b string) string {
	if c == "true" {
		return a
	}
	if c == "false" {
		return b
	}
	if a == b {
		return a
	}
	return app("ite", c, a, b)
}

func sEq(a, b string) string {
	if a == b {
		return "true"
	}
	return app("=", a, b)
}

func intLit(v *big.Int) string {
	if v.Sign() < 0 {
		return "(- " + new(big.Int).Neg(v).String() + ")"
	}
	return v.String()
}

func intLit64(v int64) string { return intLit(big.NewInt(v)) }

func bvLit(v *big.Int, bits int) string {
	m := new(big.Int).Lsh(big.NewInt(1), uint(bits))
	x := new(big.Int).Mod(v, m)
	return fmt.Sprintf("(_ bv%s %d)", x.String(), bits)
}

// smtName makes an identifier safe for SMT-LIB by quoting it.
func smtName(s string) string {
	ok := true
	for _, c := range s {
		if !(c >= 'a' && c <= 'z' || c >= 'A' && c <= 'Z' || c >= '0' && c <= '9' || c == '_' || c == '.' || c == '!' || c == '$' || c == '@' || c == '#' || c == '%' || c == '~') {
			ok = false
		}
	}
	if ok && s != "" && !(s[0] >= '0' && s[0] <= '9') {
		return s
	}
	s = strings.ReplaceAll(s, "|", "!")
	s = strings.ReplaceAll(s, "\\", "!")
	return "|" + s + "|"
}

func pow2(n int) *big.Int { return new(big.Int).Lsh(big.NewInt(1), uint(n)) }

// prelude: datatypes and helper functions shared by all queries.
const preludeCommon = `
(declare-datatypes ((Ref 0)) (((nil) (obj (oid Int)) (fld (fbase Ref) (fid Int)) (elm (ebase Ref) (eidx Int)))))
(declare-datatypes ((Iface 0)) (((mkI (itag Int) (ipay Int) (iref Ref)))))
(declare-sort Str 0)
(declare-fun slen (Str) Int)
(declare-fun sat (Str Int) Int)
(declare-fun sconcat (Str Str) Str)
(declare-fun ssub (Str Int Int) Str)
(declare-fun rootid (Ref) Int)
(declare-fun rtype (Ref) Int)
(declare-fun box_fp ((_ FloatingPoint 11 53)) Int)
(declare-fun unbox_fp (Int) (_ FloatingPoint 11 53))
(declare-fun box_str (Str) Int)
(declare-fun unbox_str (Int) Str)
(define-fun nilI () Iface (mkI 0 0 nil))
(define-fun tdiv ((a Int) (b Int)) Int (ite (>= a 0) (div a b) (- (div (- a) b))))
(define-fun trem ((a Int) (b Int)) Int (- a (* b (ite (>= a 0) (div a b) (- (div (- a) b))))))
(define-fun fdiv ((a Int) (b Int)) Int (ite (> b 0) (div a b) (div (- a) (- b))))
(define-fun fmod ((a Int) (b Int)) Int (- a (* b (ite (> b 0) (div a b) (div (- a) (- b))))))
(define-fun imin ((a Int) (b Int)) Int (ite (<= a b) a b))
(define-fun imax ((a Int) (b Int)) Int (ite (>= a b) a b))
(define-fun iabs ((a Int)) Int (ite (>= a 0) a (- a)))
(define-fun b2i ((b Bool)) Int (ite b 1 0))
`

// rootAxioms: interior references belong to the allocation of their base. Only added to queries
// that already contain quantifiers (ground instances are asserted where the terms are built), so
// that quantifier-free queries keep producing models.
const rootAxioms = `(assert (forall ((r Ref) (i Int)) (! (= (rootid (fld r i)) (rootid r)) :pattern ((fld r i)))))
(assert (forall ((r Ref) (i Int)) (! (= (rootid (elm r i)) (rootid r)) :pattern ((elm r i)))))
`

// withAxioms inserts the quantified axioms after the prelude of a complete query when the
// query is quantified anyway.
func withAxioms(prelude, rest string) string {
	if strings.Contains(rest, "(forall ") || strings.Contains(rest, "sk!") {
		return prelude + rootAxioms + rest
	}
	return prelude + rest
}

func wrapDefs() string {
	var sb strings.Builder
	for _, bits := range []int{8, 16, 32, 64} {
		m := pow2(bits).String()
		h := pow2(bits - 1).String()
		fmt.Fprintf(&sb, "(define-fun wrap_s%d ((x Int)) Int (- (mod (+ x %s) %s) %s))\n", bits, h, m, h)
		fmt.Fprintf(&sb, "(define-fun wrap_u%d ((x Int)) Int (mod x %s))\n", bits, m)
	}
	return sb.String()
}
