package main

import (
	"bufio"
	"fmt"
	"os"
	"path/filepath"
	"regexp"
	"sort"
	"strconv"
	"strings"
)

// Contract files are comment-only Go files (build tag verif) in /repo, plus
// assumed contracts for external packages under /verif/assumed/*.contracts.
// Every contract line starts with "//@".

type Clause struct {
	Kind  string // requires ensures invariant assert assume
	Label string
	Props []string
	Text  string
	Loop  int
	Pos   string
	Anchor string // regexp over the source line of the anchoring statement (assert/assume/snap)
}

type SpecParam struct{ Name, Type string }

type SpecFn struct {
	Pkg    string
	Name   string
	Params []SpecParam
	Result string
	Body   string // "" => uninterpreted
	Pos    string
	Rec    bool // "specfn rec f(...)": emitted as define-fun-rec over its (pure) arguments instead of being expanded
}

type FuncContract struct {
	Pkg        string // package path
	Key        string // Func or Recv.Method
	Props      []string
	Arith      string // int | bv
	Requires   []Clause
	Ensures    []Clause
	Invariants map[int][]Clause
	BodyEnsures map[int][]Clause // checked at every back edge, over the values of the finished iteration
	Asserts    []Clause // assert@anchor
	Modifies   []string
	ModAll     bool
	ModCallbacks bool // "modifies callbacks": whatever the methods/functions passed as arguments may write
	HasMod     bool
	NoPanic    bool
	Trusted    bool
	TrustedWhy string
	Pure       bool
	Results    []string
	Lets       []Clause // let name = expr (evaluated in entry state)
	Ghost      []Clause
	Sweep      bool // zero-annotation safety sweep member
	Pos        string
	Assumed    bool // from /verif/assumed (external)
	Used       bool
	GhostMods  []string
	Callbacks    []Clause // "callback f preserves e": a call of the function-valued parameter f leaves e as it was (assumption about the caller-supplied code, listed in the evidence)
	OnPanic      []Clause // must hold, after the deferred calls registered so far have run, if a callee panics
	Decreases    []string // termination measure (lexicographic tuple of Int expressions over the parameters)
	DecreasesPos string
	Abstractions []Clause // caller-visible postconditions about the ghost view that are NOT verified against the body (assumption, listed in evidence)
	UsesRepInv   bool     // "uses repinv": representation invariants (repinv declarations) are assumed at field accesses in this function
	GhostComps []string // ghost heap components ($ghost:...) the function changes besides its heap frame
	VerifyImpls bool     // interface contract: module implementations are verified against it
	Aliases    []string // positional parameter names (receiver first) when inherited by an implementation
	IfaceKey   string
}

type PkgDecl struct {
	Kind string // protect monotone typeinv ghostfield axiom
	Pkg  string
	Text string
	Pos  string
	Props []string
}

type Contracts struct {
	Funcs   map[string]*FuncContract // pkgpath + "." + key
	SpecFns map[string]*SpecFn       // name (global namespace)
	Decls   []PkgDecl
	Files   []string
}

var clauseKeywords = map[string]bool{
	"func": true, "prop": true, "arith": true, "requires": true, "ensures": true, "onpanic": true, "callback": true, "decreases": true, "covers": true, "globals_readonly": true, "delegates": true, "no_callers": true, "abstraction": true, "repinv": true, "uses": true,
	"modifies": true, "invariant": true, "nopanic": true, "trusted": true, "pure": true,
	"specfn": true, "let": true, "assume": true, "typeinv": true, "protect": true,
	"monotone": true, "results": true, "assert": true, "package": true, "sweep": true,
	"axiom": true, "ghostfield": true, "ghostarray": true, "reads_not": true, "readafter": true, "lemma": true, "impls": true, "bodyensures": true, "snap": true, "apply": true, "ghostmod": true, "ghost": true, "frame": true, "end": true,
}

var labelRe = regexp.MustCompile(`^([A-Za-z_][A-Za-z0-9_\-]*):\s+(.*)$`)
var propsRe = regexp.MustCompile(`^\[([A-Z0-9, ]+)\]\s*(.*)$`)

func parseContractFile(path string, pkgPath string, assumed bool, cs *Contracts) error {
	f, err := os.Open(path)
	if err != nil {
		return err
	}
	defer f.Close()
	cs.Files = append(cs.Files, path)
	sc := bufio.NewScanner(f)
	sc.Buffer(make([]byte, 1<<20), 1<<20)
	type rawClause struct {
		kw, text, pos string
	}
	var raws []rawClause
	ln := 0
	for sc.Scan() {
		ln++
		line := strings.TrimSpace(sc.Text())
		if !strings.HasPrefix(line, "//@") {
			continue
		}
		body := strings.TrimSpace(line[3:])
		if body == "" {
			continue
		}
		// strip trailing " // comment"? keep simple: "//" inside clause starts a comment
		if i := strings.Index(body, " //"); i >= 0 {
			body = strings.TrimSpace(body[:i])
		}
		first := body
		rest := ""
		if i := strings.IndexAny(body, " \t"); i >= 0 {
			first, rest = body[:i], strings.TrimSpace(body[i:])
		}
		if clauseKeywords[first] {
			raws = append(raws, rawClause{first, rest, fmt.Sprintf("%s:%d", filepath.Base(path), ln)})
		} else {
			if len(raws) == 0 {
				return fmt.Errorf("%s:%d: continuation without clause", path, ln)
			}
			raws[len(raws)-1].text += " " + body
		}
	}
	var cur *FuncContract
	curPkg := pkgPath
	for _, rc := range raws {
		text := rc.text
		var props []string
		if m := propsRe.FindStringSubmatch(text); m != nil {
			for _, p := range strings.Split(m[1], ",") {
				props = append(props, strings.TrimSpace(p))
			}
			text = m[2]
		}
		switch rc.kw {
		case "package":
			curPkg = text
			cur = nil
		case "end":
			cur = nil
		case "func":
			key := strings.Fields(text)[0]
			cur = &FuncContract{Pkg: curPkg, Key: key, Invariants: map[int][]Clause{}, BodyEnsures: map[int][]Clause{}, Pos: rc.pos, Assumed: assumed, Arith: "int"}
			full := curPkg + "." + key
			if _, dup := cs.Funcs[full]; dup {
				return fmt.Errorf("%s: duplicate contract for %s", rc.pos, full)
			}
			cs.Funcs[full] = cur
		case "specfn":
			sf, err := parseSpecFn(text, curPkg, rc.pos)
			if err != nil {
				return err
			}
			if _, dup := cs.SpecFns[sf.Name]; dup {
				return fmt.Errorf("%s: duplicate specfn %s", rc.pos, sf.Name)
			}
			cs.SpecFns[sf.Name] = sf
		case "covers", "globals_readonly", "delegates", "no_callers", "typeinv", "repinv", "protect", "monotone", "axiom", "ghostfield", "ghostarray", "frame", "lemma", "reads_not", "readafter":
			cs.Decls = append(cs.Decls, PkgDecl{Kind: rc.kw, Pkg: curPkg, Text: text, Pos: rc.pos, Props: props})
		default:
			if cur == nil {
				return fmt.Errorf("%s: clause %q outside func", rc.pos, rc.kw)
			}
			cl := Clause{Kind: rc.kw, Props: props, Pos: rc.pos}
			switch rc.kw {
			case "prop":
				cur.Props = append(cur.Props, strings.Fields(strings.ReplaceAll(text, ",", " "))...)
			case "arith":
				cur.Arith = text
			case "nopanic":
				cur.NoPanic = true
			case "decreases":
				for _, m := range splitTop(text, ',') {
					if m = strings.TrimSpace(m); m != "" {
						cur.Decreases = append(cur.Decreases, m)
					}
				}
				cur.DecreasesPos = rc.pos
			case "uses":
				if strings.Contains(text, "repinv") {
					cur.UsesRepInv = true
				}
			case "sweep":
				cur.Sweep = true
			case "impls":
				cur.VerifyImpls = true
			case "pure":
				cur.Pure = true
				cur.HasMod = true
			case "trusted":
				cur.Trusted = true
				cur.TrustedWhy = text
			case "results":
				cur.Results = strings.Fields(strings.ReplaceAll(text, ",", " "))
			case "ghostmod":
				// ghost variables the function changes (in addition to its computed heap frame)
				for _, m := range splitTop(text, ',') {
					if m = strings.TrimSpace(m); strings.HasPrefix(m, "$ghost:") {
						cur.GhostComps = append(cur.GhostComps, m)
					} else if m != "" {
						cur.GhostMods = append(cur.GhostMods, m)
					}
				}
			case "modifies":
				cur.HasMod = true
				for _, m := range splitTop(text, ',') {
					m = strings.TrimSpace(m)
					if m == "*" {
						cur.ModAll = true
					} else if m == "callbacks" {
						cur.ModCallbacks = true
					} else if m != "" && m != "nothing" {
						cur.Modifies = append(cur.Modifies, m)
					}
				}
			case "invariant", "bodyensures":
				fs := strings.SplitN(text, " ", 2)
				n, err := strconv.Atoi(strings.TrimSuffix(fs[0], ":"))
				if err != nil || len(fs) < 2 {
					return fmt.Errorf("%s: invariant needs a loop ordinal", rc.pos)
				}
				cl.Loop = n
				cl.Text = strings.TrimSpace(fs[1])
				if m := labelRe.FindStringSubmatch(cl.Text); m != nil {
					cl.Label, cl.Text = m[1], m[2]
				}
				if rc.kw == "bodyensures" {
					cur.BodyEnsures[n] = append(cur.BodyEnsures[n], cl)
				} else {
					cur.Invariants[n] = append(cur.Invariants[n], cl)
				}
			default:
				cl.Text = text
				if (rc.kw == "assert" || rc.kw == "assume" || rc.kw == "snap" || rc.kw == "apply") && strings.HasPrefix(text, "/") {
					j := strings.Index(text[1:], "/ ")
					jn := strings.Index(text[1:], "/#")
					if jn >= 0 && (j < 0 || jn < j) {
						// /re/#n occurrence suffix
						sp := strings.Index(text[1+jn:], " ")
						if sp < 0 {
							return fmt.Errorf("%s: anchor occurrence needs a following expression", rc.pos)
						}
						cl.Anchor = text[1 : 1+jn+sp]
						cl.Text = strings.TrimSpace(text[1+jn+sp:])
					} else {
						if j < 0 {
							return fmt.Errorf("%s: anchor needs /regexp/ followed by a space", rc.pos)
						}
						cl.Anchor = text[1 : 1+j]
						cl.Text = strings.TrimSpace(text[1+j+2:])
					}
				}
				if m := propsRe.FindStringSubmatch(cl.Text); m != nil && cl.Anchor != "" {
					for _, p := range strings.Split(m[1], ",") {
						cl.Props = append(cl.Props, strings.TrimSpace(p))
					}
					cl.Text = m[2]
				}
				if m := labelRe.FindStringSubmatch(cl.Text); m != nil {
					cl.Label, cl.Text = m[1], m[2]
				}
				switch rc.kw {
				case "requires":
					cur.Requires = append(cur.Requires, cl)
				case "ensures":
					cur.Ensures = append(cur.Ensures, cl)
				case "abstraction":
					cur.Abstractions = append(cur.Abstractions, cl)
				case "onpanic":
					cur.OnPanic = append(cur.OnPanic, cl)
				case "callback":
					cur.Callbacks = append(cur.Callbacks, cl)
				case "let":
					cur.Lets = append(cur.Lets, cl)
				case "assert", "assume", "snap", "apply":
					cur.Asserts = append(cur.Asserts, cl)
				case "ghost":
					cur.Ghost = append(cur.Ghost, cl)
				}
			}
		}
	}
	return nil
}

// parseSpecFn parses "name(a int, b rangeValue) int = body".
func parseSpecFn(text, pkg, pos string) (*SpecFn, error) {
	body := ""
	head := text
	if i := indexTop(text, '='); i >= 0 {
		head, body = strings.TrimSpace(text[:i]), strings.TrimSpace(text[i+1:])
	}
	lp := strings.Index(head, "(")
	rp := strings.LastIndex(head, ")")
	if lp < 0 || rp < lp {
		return nil, fmt.Errorf("%s: bad specfn %q", pos, text)
	}
	sf := &SpecFn{Pkg: pkg, Name: strings.TrimSpace(head[:lp]), Result: strings.TrimSpace(head[rp+1:]), Body: body, Pos: pos}
	if strings.HasPrefix(sf.Name, "rec ") {
		sf.Rec = true
		sf.Name = strings.TrimSpace(sf.Name[4:])
	}
	params := strings.TrimSpace(head[lp+1 : rp])
	if params != "" {
		var pending []string
		for _, p := range strings.Split(params, ",") {
			fs := strings.Fields(p)
			switch len(fs) {
			case 1:
				pending = append(pending, fs[0])
			case 2:
				for _, n := range pending {
					sf.Params = append(sf.Params, SpecParam{n, fs[1]})
				}
				pending = nil
				sf.Params = append(sf.Params, SpecParam{fs[0], fs[1]})
			default:
				return nil, fmt.Errorf("%s: bad specfn param %q", pos, p)
			}
		}
		if len(pending) > 0 {
			return nil, fmt.Errorf("%s: specfn params without type", pos)
		}
	}
	return sf, nil
}

// indexTop finds the first top-level occurrence of a single '=' (not ==, <=, >=, !=, =>).
func indexTop(s string, ch byte) int {
	depth := 0
	for i := 0; i < len(s); i++ {
		c := s[i]
		switch c {
		case '(', '[', '{':
			depth++
		case ')', ']', '}':
			depth--
		}
		if depth == 0 && c == ch {
			if ch == '=' {
				prev := byte(' ')
				if i > 0 {
					prev = s[i-1]
				}
				next := byte(' ')
				if i+1 < len(s) {
					next = s[i+1]
				}
				if prev == '=' || prev == '<' || prev == '>' || prev == '!' || next == '=' || next == '>' {
					continue
				}
			}
			return i
		}
	}
	return -1
}

func splitTop(s string, sep byte) []string {
	var out []string
	depth := 0
	start := 0
	for i := 0; i < len(s); i++ {
		switch s[i] {
		case '(', '[', '{':
			depth++
		case ')', ']', '}':
			depth--
		default:
			if s[i] == sep && depth == 0 {
				out = append(out, s[start:i])
				start = i + 1
			}
		}
	}
	out = append(out, s[start:])
	return out
}

func loadContracts(repo string, pkgDirs map[string]string, assumedDir string) (*Contracts, error) {
	cs := &Contracts{Funcs: map[string]*FuncContract{}, SpecFns: map[string]*SpecFn{}}
	var paths []string
	for p := range pkgDirs {
		paths = append(paths, p)
	}
	sort.Strings(paths)
	for _, pkgPath := range paths {
		dir := pkgDirs[pkgPath]
		matches, _ := filepath.Glob(filepath.Join(dir, "zz_verif_*.go"))
		sort.Strings(matches)
		for _, m := range matches {
			if err := parseContractFile(m, pkgPath, false, cs); err != nil {
				return nil, err
			}
		}
	}
	if assumedDir != "" {
		matches, _ := filepath.Glob(filepath.Join(assumedDir, "*.contracts"))
		sort.Strings(matches)
		for _, m := range matches {
			if err := parseContractFile(m, "", true, cs); err != nil {
				return nil, err
			}
		}
	}
	return cs, nil
}
