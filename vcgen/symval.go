package main

import (
	"fmt"
	"go/types"
	"strings"
)

type Kind int

const (
	KInt Kind = iota
	KBool
	KFloat
	KStr
	KRef
	KIface
	KSlice  // Fs = store(Ref) off len cap
	KStruct // Fs = fields
	KTuple  // Fs = components
	KOpq    // Int-sorted opaque token (maps, funcs, chans, unsafe pointers)
	KNilLit // untyped nil in a spec expression
	KReal   // mathematical real (spec only)
)

type SymVal struct {
	K  Kind
	T  types.Type // Go type; nil for mathematical spec integers / spec bools
	S  string     // term for scalar kinds
	Fs []SymVal
}

func (v SymVal) String() string {
	switch v.K {
	case KSlice, KStruct, KTuple:
		var p []string
		for _, f := range v.Fs {
			p = append(p, f.String())
		}
		return "{" + strings.Join(p, " ") + "}"
	}
	return v.S
}

func mkInt(s string, t types.Type) SymVal  { return SymVal{K: KInt, S: s, T: t} }
func mkBool(s string) SymVal               { return SymVal{K: KBool, S: s, T: types.Typ[types.Bool]} }
func mkRef(s string, t types.Type) SymVal  { return SymVal{K: KRef, S: s, T: t} }
func mkMath(s string) SymVal               { return SymVal{K: KInt, S: s} }
func mkIface(s string, t types.Type) SymVal { return SymVal{K: KIface, S: s, T: t} }

const sortFP = "(_ FloatingPoint 11 53)"

// intInfo returns bit width and signedness for integer types.
func intInfo(t types.Type) (bits int, signed bool, ok bool) {
	b, isB := t.Underlying().(*types.Basic)
	if !isB {
		return 0, false, false
	}
	switch b.Kind() {
	case types.Int, types.Int64, types.UntypedInt, types.UntypedRune:
		return 64, true, true
	case types.Int32:
		return 32, true, true
	case types.Int16:
		return 16, true, true
	case types.Int8:
		return 8, true, true
	case types.Uint, types.Uint64, types.Uintptr:
		return 64, false, true
	case types.Uint32:
		return 32, false, true
	case types.Uint16:
		return 16, false, true
	case types.Uint8:
		return 8, false, true
	}
	return 0, false, false
}

func kindOf(t types.Type) Kind {
	switch u := t.Underlying().(type) {
	case *types.Basic:
		switch {
		case u.Info()&types.IsInteger != 0:
			return KInt
		case u.Info()&types.IsBoolean != 0:
			return KBool
		case u.Info()&types.IsFloat != 0:
			return KFloat
		case u.Info()&types.IsString != 0:
			return KStr
		case u.Kind() == types.UnsafePointer:
			return KOpq
		case u.Kind() == types.UntypedNil:
			return KNilLit
		}
		return KOpq
	case *types.Pointer:
		return KRef
	case *types.Interface:
		return KIface
	case *types.Slice:
		return KSlice
	case *types.Struct:
		return KStruct
	case *types.Tuple:
		return KTuple
	}
	return KOpq
}

func typeKey(t types.Type) string {
	return types.TypeString(t, func(p *types.Package) string { return p.Name() })
}

type leaf struct {
	Suffix string
	K      Kind
	T      types.Type
}

// leaves enumerates the scalar leaves of a type, in a fixed order.
func leaves(t types.Type) []leaf {
	switch kindOf(t) {
	case KStruct:
		st := t.Underlying().(*types.Struct)
		var out []leaf
		for i := 0; i < st.NumFields(); i++ {
			f := st.Field(i)
			for _, l := range leaves(f.Type()) {
				out = append(out, leaf{"." + f.Name() + l.Suffix, l.K, l.T})
			}
		}
		return out
	case KSlice:
		return []leaf{{".$s", KRef, nil}, {".$o", KInt, nil}, {".$l", KInt, nil}, {".$c", KInt, nil}}
	case KTuple:
		tp := t.(*types.Tuple)
		var out []leaf
		for i := 0; i < tp.Len(); i++ {
			for _, l := range leaves(tp.At(i).Type()) {
				out = append(out, leaf{fmt.Sprintf(".%d%s", i, l.Suffix), l.K, l.T})
			}
		}
		return out
	}
	if arr, ok := t.Underlying().(*types.Array); ok && arr.Len() <= 16 {
		var out []leaf
		for i := int64(0); i < arr.Len(); i++ {
			for _, l := range leaves(arr.Elem()) {
				out = append(out, leaf{fmt.Sprintf("[%d]%s", i, l.Suffix), l.K, l.T})
			}
		}
		return out
	}
	return []leaf{{"", kindOf(t), t}}
}

// flatten returns the scalar terms of v in leaf order.
func flatten(v SymVal) []SymVal {
	switch v.K {
	case KStruct, KTuple, KSlice:
		var out []SymVal
		for _, f := range v.Fs {
			out = append(out, flatten(f)...)
		}
		return out
	}
	return []SymVal{v}
}

// unflatten rebuilds a value of type t from scalar terms.
func unflatten(t types.Type, terms []string) (SymVal, []string) {
	switch kindOf(t) {
	case KStruct:
		st := t.Underlying().(*types.Struct)
		v := SymVal{K: KStruct, T: t}
		for i := 0; i < st.NumFields(); i++ {
			var f SymVal
			f, terms = unflatten(st.Field(i).Type(), terms)
			v.Fs = append(v.Fs, f)
		}
		return v, terms
	case KTuple:
		tp := t.(*types.Tuple)
		v := SymVal{K: KTuple, T: t}
		for i := 0; i < tp.Len(); i++ {
			var f SymVal
			f, terms = unflatten(tp.At(i).Type(), terms)
			v.Fs = append(v.Fs, f)
		}
		return v, terms
	case KSlice:
		v := SymVal{K: KSlice, T: t, Fs: []SymVal{
			{K: KRef, S: terms[0]}, mkMath(terms[1]), mkMath(terms[2]), mkMath(terms[3])}}
		return v, terms[4:]
	}
	if arr, ok := t.Underlying().(*types.Array); ok && arr.Len() <= 16 {
		v := SymVal{K: KTuple, T: t}
		for i := int64(0); i < arr.Len(); i++ {
			var f SymVal
			f, terms = unflatten(arr.Elem(), terms)
			v.Fs = append(v.Fs, f)
		}
		return v, terms
	}
	return SymVal{K: kindOf(t), T: t, S: terms[0]}, terms[1:]
}

func structField(v SymVal, name string) (SymVal, bool) {
	if v.K != KStruct || v.T == nil {
		return SymVal{}, false
	}
	st := v.T.Underlying().(*types.Struct)
	for i := 0; i < st.NumFields(); i++ {
		if st.Field(i).Name() == name {
			return v.Fs[i], true
		}
	}
	return SymVal{}, false
}

func elemType(t types.Type) types.Type {
	switch u := t.Underlying().(type) {
	case *types.Slice:
		return u.Elem()
	case *types.Array:
		return u.Elem()
	case *types.Pointer:
		return u.Elem()
	case *types.Basic:
		if u.Info()&types.IsString != 0 {
			return types.Typ[types.Uint8]
		}
	}
	return nil
}
