package main

import (
	"go/token"
	"fmt"
	"go/types"
	"sort"
	"strings"

	"golang.org/x/tools/go/packages"
	"golang.org/x/tools/go/ssa"
)

// Global holds program-wide facts shared by all function contexts.
type Global struct {
	prog     *ssa.Program
	pkgs     []*packages.Package
	spkgs    map[string]*ssa.Package
	cs       *Contracts
	allFuncs map[*ssa.Function]bool
	funcKey  map[*ssa.Function]string // pkgpath.Key
	keyFunc  map[string]*ssa.Function
	tags     map[string]int // typeKey(full) -> tag
	tagTypes []types.Type
	escField map[string]bool // "S.f" fields whose address escapes
	modsets  map[*ssa.Function]*ModSet
	typeinvs map[string][]PkgDecl // typeKey -> decls
	repinvs  map[string][]PkgDecl // typeKey -> assumed representation invariants (see FuncContract.UsesRepInv)
	ghostFields map[string]map[string]string // typeKey -> field -> sort type name
	globalIdx map[*ssa.Global]int
	axioms   []PkgDecl
	compKT   map[string]compKT
	cha      map[string][]*ssa.Function
	protects []protectDecl
	inherited map[*ssa.Function]*FuncContract
	fileLines map[string][]string
}

func fullTypeKey(t types.Type) string {
	return types.TypeString(t, func(p *types.Package) string { return p.Path() })
}

// funcKeyOf returns "pkgpath.Func" or "pkgpath.Recv.Method".
func funcKeyOf(fn *ssa.Function) string {
	if fn == nil {
		return ""
	}
	if fn.Pkg == nil && fn.Object() == nil {
		return ""
	}
	obj := fn.Object()
	if obj == nil {
		// anonymous function or wrapper
		if fn.Parent() != nil {
			return funcKeyOf(fn.Parent()) + "$" + strings.TrimPrefix(fn.Name(), fn.Parent().Name()+"$")
		}
		return ""
	}
	pkgPath := ""
	if obj.Pkg() != nil {
		pkgPath = obj.Pkg().Path()
	}
	sig := fn.Signature
	if recv := sig.Recv(); recv != nil {
		t := recv.Type()
		if p, ok := t.(*types.Pointer); ok {
			t = p.Elem()
		}
		if n, ok := t.(*types.Named); ok {
			return pkgPath + "." + n.Obj().Name() + "." + obj.Name()
		}
		return pkgPath + ".?." + obj.Name()
	}
	return pkgPath + "." + obj.Name()
}

// ifaceMethodKey returns the contract key of an interface method call.
func ifaceMethodKey(recvT types.Type, m *types.Func) string {
	// a method promoted from an embedded interface is keyed by the interface that declares it
	if sig, ok := m.Type().(*types.Signature); ok && sig.Recv() != nil {
		if n, ok := sig.Recv().Type().(*types.Named); ok {
			if _, isI := n.Underlying().(*types.Interface); isI {
				recvT = n
			}
		}
	}
	if n, ok := recvT.(*types.Named); ok && n.Obj().Pkg() != nil {
		return n.Obj().Pkg().Path() + "." + n.Obj().Name() + "." + m.Name()
	}
	if n, ok := recvT.(*types.Named); ok { // error
		return "builtin." + n.Obj().Name() + "." + m.Name()
	}
	return ""
}

func newGlobal(prog *ssa.Program, pkgs []*packages.Package, cs *Contracts) *Global {
	g := &Global{prog: prog, pkgs: pkgs, cs: cs, spkgs: map[string]*ssa.Package{},
		funcKey: map[*ssa.Function]string{}, keyFunc: map[string]*ssa.Function{},
		tags: map[string]int{}, escField: map[string]bool{}, modsets: map[*ssa.Function]*ModSet{},
		typeinvs: map[string][]PkgDecl{}, repinvs: map[string][]PkgDecl{}, ghostFields: map[string]map[string]string{}, globalIdx: map[*ssa.Global]int{}, compKT: map[string]compKT{}, inherited: map[*ssa.Function]*FuncContract{}, fileLines: map[string][]string{}}
	for _, p := range prog.AllPackages() {
		g.spkgs[p.Pkg.Path()] = p
	}
	g.allFuncs = allFunctions(prog)
	for fn := range g.allFuncs {
		k := funcKeyOf(fn)
		if k != "" && fn.Synthetic == "" {
			g.funcKey[fn] = k
			g.keyFunc[k] = fn
		}
	}
	// type tags: all runtime types + types mentioned in MakeInterface / TypeAssert
	tset := map[string]types.Type{}
	add := func(t types.Type) {
		if _, isI := t.Underlying().(*types.Interface); isI {
			return
		}
		tset[fullTypeKey(t)] = t
	}
	var fns []*ssa.Function
	for fn := range g.allFuncs {
		fns = append(fns, fn)
	}
	sort.Slice(fns, func(i, j int) bool { return fns[i].String() < fns[j].String() })
	inModule := func(fn *ssa.Function) bool {
		return fn.Pkg != nil && strings.HasPrefix(fn.Pkg.Pkg.Path(), "go.starlark.net")
	}
	for _, fn := range fns {
		if !inModule(fn) {
			continue
		}
		for _, b := range fn.Blocks {
			for _, in := range b.Instrs {
				switch in := in.(type) {
				case *ssa.MakeInterface:
					add(in.X.Type())
				case *ssa.TypeAssert:
					add(in.AssertedType)
				case *ssa.FieldAddr:
					g.noteFieldAddr(in)
				}
			}
		}
	}
	// also all named types of module packages (and pointers to them) so that
	// "implements" facts cover types that reach interfaces via other routes
	for _, p := range prog.AllPackages() {
		if !strings.HasPrefix(p.Pkg.Path(), "go.starlark.net") {
			continue
		}
		for _, m := range p.Members {
			if tm, ok := m.(*ssa.Type); ok {
				add(tm.Type())
				add(types.NewPointer(tm.Type()))
			}
		}
	}
	var keys []string
	for k := range tset {
		keys = append(keys, k)
	}
	sort.Strings(keys)
	for i, k := range keys {
		g.tags[k] = i + 1
		g.tagTypes = append(g.tagTypes, tset[k])
	}
	// globals
	var globs []*ssa.Global
	for _, p := range prog.AllPackages() {
		for _, m := range p.Members {
			if gl, ok := m.(*ssa.Global); ok {
				globs = append(globs, gl)
			}
		}
	}
	sort.Slice(globs, func(i, j int) bool { return globs[i].String() < globs[j].String() })
	for i, gl := range globs {
		g.globalIdx[gl] = i + 1
	}
	// package-level declarations
	for _, d := range cs.Decls {
		switch d.Kind {
		case "typeinv":
			// "TypeName: expr"
			i := strings.Index(d.Text, ":")
			if i < 0 {
				continue
			}
			name := strings.TrimSpace(d.Text[:i])
			dd := d
			dd.Text = strings.TrimSpace(d.Text[i+1:])
			key := d.Pkg + "." + name
			g.typeinvs[key] = append(g.typeinvs[key], dd)
		case "repinv":
			// "TypeName: expr(self)" with self a pointer to the struct
			i := strings.Index(d.Text, ":")
			if i < 0 {
				continue
			}
			name := strings.TrimSpace(d.Text[:i])
			dd := d
			dd.Text = strings.TrimSpace(d.Text[i+1:])
			key := d.Pkg + "." + name
			g.repinvs[key] = append(g.repinvs[key], dd)
		case "ghostfield":
			// "pkgpath.Type.field sort"
			fs := strings.Fields(d.Text)
			if len(fs) != 2 {
				continue
			}
			j := strings.LastIndex(fs[0], ".")
			tk, fname := fs[0][:j], fs[0][j+1:]
			if g.ghostFields[tk] == nil {
				g.ghostFields[tk] = map[string]string{}
			}
			g.ghostFields[tk][fname] = fs[1]
			gk := KInt
			switch {
			case fs[1] == "bool":
				gk = KBool
			case fs[1] == "real":
				gk = KReal
			case fs[1] == "iface":
				gk = KIface
			case fs[1] == "ref" || strings.HasPrefix(fs[1], "*"):
				gk = KRef
			}
			g.compKT["$ghost:"+tk+"."+fname] = compKT{gk, nil}
		case "ghostarray":
			fs := strings.Fields(d.Text)
			if len(fs) == 2 {
				k, srt := KBool, fs[1]
				switch srt {
				case "int":
					k = KInt
				case "iface":
					k = KIface
				case "ref":
					k = KRef
				}
				g.compKT["$ghost:"+fs[0]+"[]"] = compKT{k, nil}
			}
		case "axiom":
			g.axioms = append(g.axioms, d)
		}
	}
	g.parseProtects()
	// short ghost-field components in ghostmod clauses ($ghost:entry.gidx) -> full type keys
	for _, con := range g.cs.Funcs {
		for i, gc := range con.GhostComps {
			con.GhostComps[i] = g.expandGhostComp(con.Pkg, gc)
		}
	}
	return g
}

func (g *Global) expandGhostComp(pkg, comp string) string {
	if strings.HasSuffix(comp, "[]") {
		return comp
	}
	if _, ok := g.compKT[comp]; ok {
		return comp
	}
	body := strings.TrimPrefix(comp, "$ghost:")
	if j := strings.LastIndex(body, "."); j > 0 && !strings.Contains(body[:j], "/") {
		full := "$ghost:" + pkg + "." + body
		if _, ok := g.compKT[full]; ok {
			return full
		}
	}
	return comp
}

func allFunctions(prog *ssa.Program) map[*ssa.Function]bool {
	seen := map[*ssa.Function]bool{}
	var visit func(fn *ssa.Function)
	visit = func(fn *ssa.Function) {
		if fn == nil || seen[fn] {
			return
		}
		seen[fn] = true
		for _, a := range fn.AnonFuncs {
			visit(a)
		}
	}
	for _, p := range prog.AllPackages() {
		for _, m := range p.Members {
			switch m := m.(type) {
			case *ssa.Function:
				visit(m)
			case *ssa.Type:
				t := m.Type()
				for _, tt := range []types.Type{t, types.NewPointer(t)} {
					ms := prog.MethodSets.MethodSet(tt)
					for i := 0; i < ms.Len(); i++ {
						visit(prog.MethodValue(ms.At(i)))
					}
				}
			}
		}
	}
	return seen
}

// noteFieldAddr records scalar fields whose address is used other than by a
// direct load or store: those fields live in the per-type memory component.
func (g *Global) noteFieldAddr(in *ssa.FieldAddr) {
	st := in.X.Type().Underlying().(*types.Pointer).Elem()
	stru := st.Underlying().(*types.Struct)
	ft := stru.Field(in.Field).Type()
	switch kindOf(ft) {
	case KStruct:
		return
	}
	if _, isArr := ft.Underlying().(*types.Array); isArr {
		return
	}
	refs := in.Referrers()
	if refs == nil {
		return
	}
	for _, r := range *refs {
		switch r := r.(type) {
		case *ssa.UnOp:
			continue
		case *ssa.Store:
			if r.Addr == in && r.Val != in {
				continue
			}
		case *ssa.DebugRef:
			continue
		}
		g.escField[typeKey(st)+"."+stru.Field(in.Field).Name()] = true
	}
}

func (g *Global) tagOf(t types.Type) int {
	k := fullTypeKey(t)
	if n, ok := g.tags[k]; ok {
		return n
	}
	// late registration (types only seen in external code)
	n := len(g.tags) + 1
	g.tags[k] = n
	g.tagTypes = append(g.tagTypes, t)
	return n
}

func (g *Global) contractFor(fn *ssa.Function) *FuncContract {
	if k, ok := g.funcKey[fn]; ok {
		if c := g.cs.Funcs[k]; c != nil {
			return c
		}
		return g.inheritedContract(fn)
	}
	// generic instantiation or wrapper: try origin
	if o := fn.Origin(); o != nil && o != fn {
		if c := g.contractFor(o); c != nil {
			return c
		}
		return g.cs.Funcs[funcKeyOf(o)]
	}
	return nil
}

func (g *Global) describe() string {
	return fmt.Sprintf("%d functions, %d type tags, %d escaping fields", len(g.allFuncs), len(g.tags), len(g.escField))
}


// inheritedContract: a method without its own contract inherits the contract of an
// interface method it implements (behavioural subtyping). The copy carries positional
// aliases so that the interface's parameter names resolve in the implementation.
func (g *Global) inheritedContract(fn *ssa.Function) *FuncContract {
	if c, ok := g.inherited[fn]; ok {
		return c
	}
	g.inherited[fn] = nil
	recv := fn.Signature.Recv()
	if recv == nil || fn.Synthetic != "" {
		return nil
	}
	var keys []string
	for k, c := range g.cs.Funcs {
		if c.Assumed {
			continue
		}
		if strings.HasSuffix(k, "."+fn.Name()) {
			keys = append(keys, k)
		}
	}
	sort.Strings(keys)
	for _, k := range keys {
		i := strings.LastIndex(k, ".")
		j := strings.LastIndex(k[:i], ".")
		if j < 0 {
			continue
		}
		pkg, tn := k[:j], k[j+1:i]
		sp := g.spkgs[pkg]
		if sp == nil {
			continue
		}
		o := sp.Pkg.Scope().Lookup(tn)
		if o == nil {
			continue
		}
		iface, ok := o.Type().Underlying().(*types.Interface)
		if !ok {
			continue
		}
		if !types.Implements(recv.Type(), iface) {
			continue
		}
		// find the interface method for parameter names
		var im *types.Func
		for m := 0; m < iface.NumMethods(); m++ {
			if iface.Method(m).Name() == fn.Name() {
				im = iface.Method(m)
			}
		}
		if im == nil {
			continue
		}
		base := g.cs.Funcs[k]
		cp := *base
		cp.IfaceKey = k
		cp.Aliases = []string{"self"}
		ps := im.Type().(*types.Signature).Params()
		for p := 0; p < ps.Len(); p++ {
			n := ps.At(p).Name()
			if n == "" || n == "_" {
				n = fmt.Sprintf("arg%d", p)
			}
			cp.Aliases = append(cp.Aliases, n)
		}
		g.inherited[fn] = &cp
		return &cp
	}
	return nil
}


// ifaceContract finds the contract of an interface method call: the exact
// interface first, then any contract-bearing interface the static type extends.
func (g *Global) ifaceContract(recvT types.Type, m *types.Func) (string, *FuncContract) {
	key := ifaceMethodKey(recvT, m)
	if c := g.cs.Funcs[key]; c != nil {
		return key, c
	}
	var keys []string
	for k, c := range g.cs.Funcs {
		if !c.Assumed && strings.HasSuffix(k, "."+m.Name()) {
			keys = append(keys, k)
		}
	}
	sort.Strings(keys)
	for _, k := range keys {
		i := strings.LastIndex(k, ".")
		j := strings.LastIndex(k[:i], ".")
		if j < 0 {
			continue
		}
		sp := g.spkgs[k[:j]]
		if sp == nil {
			continue
		}
		o := sp.Pkg.Scope().Lookup(k[j+1 : i])
		if o == nil {
			continue
		}
		x, ok := o.Type().Underlying().(*types.Interface)
		if !ok {
			continue
		}
		if types.Implements(recvT, x) {
			return k, g.cs.Funcs[k]
		}
	}
	return key, nil
}

// fieldFuncContract: the (assumed) contract of a function value loaded from a struct field.
func (g *Global) fieldFuncContract(v ssa.Value) (string, *FuncContract) {
	u, ok := v.(*ssa.UnOp)
	if !ok || u.Op != token.MUL {
		return "", nil
	}
	fa, ok := u.X.(*ssa.FieldAddr)
	if !ok {
		return "", nil
	}
	pt, ok := fa.X.Type().Underlying().(*types.Pointer)
	if !ok {
		return "", nil
	}
	n, ok := pt.Elem().(*types.Named)
	if !ok || n.Obj().Pkg() == nil {
		return "", nil
	}
	stru, ok := n.Underlying().(*types.Struct)
	if !ok {
		return "", nil
	}
	key := n.Obj().Pkg().Path() + "." + n.Obj().Name() + "." + stru.Field(fa.Field).Name()
	if con := g.cs.Funcs[key]; con != nil {
		con.Assumed = true
		return key, con
	}
	return "", nil
}
