package main

import (
	"fmt"
	"go/token"
	"go/types"
	"sort"
	"strings"

	"golang.org/x/tools/go/ssa"
)

func (c *fnCtx) set(v ssa.Value, sv SymVal) {
	if sv.T == nil || true {
		sv.T = v.Type()
	}
	c.vals[v] = c.nameVal(sv, v.Name())
}

func (c *fnCtx) execInstr(st *State, in ssa.Instruction) {
	switch in := in.(type) {
	case *ssa.Alloc:
		r := c.allocRef(st)
		c.set(in, mkRef(r, in.Type()))
		if tg := c.refTag(in.Type()); tg != "" {
			c.assume(st, app("=", app("rtype", c.vals[in].S), tg))
		}
		// zero-initialise
		pt := in.Type().Underlying().(*types.Pointer).Elem()
		locs := c.leafLocs(c.vals[in].S, pt)
		if len(locs) > 0 {
			c.storeLocs(st, locs, c.zeroVal(pt))
		}
		// a zero value satisfies its representation invariant (with an empty ghost view)
		if c.con != nil && c.con.UsesRepInv {
			// ghost fields of fresh memory are zero like the real ones
			var gcs []string
			for comp := range c.g.compKT {
				if strings.HasPrefix(comp, "$ghost:") && !strings.HasSuffix(comp, "[]") && strings.Contains(comp, "/") {
					gcs = append(gcs, comp)
				}
			}
			sort.Strings(gcs)
			for _, comp := range gcs {
				kt := c.g.compKT[comp]
				zero := map[Kind]string{KRef: "nil", KInt: "0", KBool: "false", KIface: "nilI"}[kt.k]
				if zero == "" {
					continue
				}
				x := c.fresh("qz")
				h := c.comp(st, comp, c.sortOf(kt.k, kt.t))
				c.assume(st, fmt.Sprintf("(forall ((%s Ref)) (! (=> (= (rootid %s) (rootid %s)) (= (select %s %s) %s)) :pattern ((select %s %s))))", x, x, c.vals[in].S, h, x, zero, h, x))
			}
			c.assumeRepInv(st, c.vals[in], in.Type())
			if stru, ok := pt.Underlying().(*types.Struct); ok {
				for i := 0; i < stru.NumFields(); i++ {
					ft := stru.Field(i).Type()
					if kindOf(ft) == KStruct {
						c.assumeRepInv(st, mkRef(app("fld", c.vals[in].S, fmt.Sprint(i)), types.NewPointer(ft)), types.NewPointer(ft))
					}
				}
			}
		}
	case *ssa.BinOp:
		x, y := c.val(st, in.X), c.val(st, in.Y)
		x, y = c.coerceNil(x, in.Y.Type()), c.coerceNil(y, in.X.Type())
		if in.Op == token.SHL || in.Op == token.SHR {
			c.set(in, c.shift(st, in.Op, x, y, in.X.Type(), in.Y.Type(), in.Pos()))
		} else {
			c.set(in, c.binop(st, in.Op, x, y, in.Type(), in.Pos()))
		}
	case *ssa.UnOp:
		c.execUnOp(st, in)
	case *ssa.ChangeType:
		v := c.val(st, in.X)
		v = retype(v, in.Type())
		c.set(in, v)
	case *ssa.ChangeInterface:
		v := c.val(st, in.X)
		c.set(in, v)
	case *ssa.Convert:
		c.set(in, c.convert(st, c.val(st, in.X), in.X.Type(), in.Type()))
	case *ssa.MakeInterface:
		c.set(in, c.makeIface(st, c.val(st, in.X), in.X.Type(), in.Type(), in.Pos()))
	case *ssa.TypeAssert:
		c.execTypeAssert(st, in)
	case *ssa.Extract:
		t := c.val(st, in.Tuple)
		if t.K != KTuple || in.Index >= len(t.Fs) {
			c.set(in, c.freshVal(st, in.Type(), "extract"))
		} else {
			c.set(in, t.Fs[in.Index])
		}
	case *ssa.Field:
		x := c.val(st, in.X)
		if x.K == KStruct && in.Field < len(x.Fs) {
			c.set(in, x.Fs[in.Field])
		} else {
			c.set(in, c.freshVal(st, in.Type(), "field"))
		}
	case *ssa.FieldAddr:
		base := c.val(st, in.X)
		c.nilCheck(st, base, in.Pos())
		c.set(in, mkRef(app("fld", base.S, fmt.Sprint(in.Field)), in.Type()))
		c.assume(st, app("=", app("rootid", c.vals[in].S), app("rootid", base.S)))
		c.assumeRepInv(st, base, in.X.Type())
	case *ssa.IndexAddr:
		c.execIndexAddr(st, in)
	case *ssa.Index:
		c.execIndex(st, in)
	case *ssa.Slice:
		c.execSlice(st, in)
	case *ssa.MakeSlice:
		c.execMakeSlice(st, in)
	case *ssa.Store:
		v := c.coerceNil(c.val(st, in.Val), in.Val.Type())
		c.nilCheck(st, c.val(st, in.Addr), in.Pos())
		c.checkProtect(st, in)
		locs, _ := c.addrLocs(st, in.Addr)
		if locs == nil {
			c.note("store through unsupported address at %s", c.posStr(in.Pos()))
			c.havocAll(st)
			return
		}
		c.storeLocs(st, locs, v)
	case *ssa.Call:
		c.execCall(st, in, &in.Call, in)
		c.sealBounds(st)
	case *ssa.Defer:
		if c.inLoop(in.Block()) {
			// A defer inside a loop registers one call per iteration. Its ghost effect
			// (releasing an iterator) is applied at registration: the call is certain to run
			// at every exit, and exits are where the balance is checked. Heap effects are
			// applied once at exit (they only havoc).
			if gm := c.callGhostMods(&in.Call); len(gm) > 0 {
				tmp := st.clone()
				c.execCall(tmp, in, &in.Call, nil)
				for _, gk := range gm {
					st.ghost[gk] = tmp.ghost[gk]
				}
				st.cur = tmp.cur // keeps the facts relating the new ghost values
				st.defers = append(st.defers, deferred{flag: "true", call: in, prepaid: true})
				return
			}
			c.note("defer inside a loop at %s: modelled as running once", c.posStr(in.Pos()))
		}
		st.defers = append(st.defers, deferred{flag: "true", call: in})
	case *ssa.RunDefers:
		c.runDefers(st, in.Pos())
	case *ssa.MakeClosure:
		v := c.freshVal(st, in.Type(), "closure")
		c.set(in, v)
	case *ssa.MakeMap:
		r := c.allocRef(st)
		n := c.define("map", "Int", app("oid", r))
		c.set(in, SymVal{K: KOpq, S: n})
	case *ssa.MakeChan:
		c.set(in, c.freshVal(st, in.Type(), "chan"))
	case *ssa.Lookup:
		c.execLookup(st, in)
	case *ssa.MapUpdate:
		c.checkMapUpdate(st, in)
	case *ssa.Range:
		c.set(in, c.freshVal(st, in.Type(), "range"))
	case *ssa.Next:
		// (ok, key, value): all unconstrained (unknown order, unknown count)
		c.set(in, c.freshVal(st, in.Type(), "next"))
	case *ssa.Go, *ssa.Send, *ssa.Select:
		c.note("concurrency instruction %T abstracted", in)
		c.havocAll(st)
		if v, ok := in.(ssa.Value); ok {
			c.set(v, c.freshVal(st, v.Type(), "conc"))
		}
	case *ssa.SliceToArrayPointer, *ssa.MultiConvert:
		v := in.(ssa.Value)
		c.note("instruction %T abstracted", in)
		c.set(v, c.freshVal(st, v.Type(), "abs"))
	default:
		c.note("unsupported instruction %T", in)
		if v, ok := in.(ssa.Value); ok {
			c.set(v, c.freshVal(st, v.Type(), "unsup"))
		}
	}
}

func retype(v SymVal, t types.Type) SymVal {
	v.T = t
	if v.K == KStruct {
		// field types may be renamed; keep components
	}
	return v
}

func (c *fnCtx) nilCheck(st *State, base SymVal, pos token.Pos) {
	if !c.checkPanics || base.K != KRef {
		if base.K == KRef {
			c.assume(st, sNot(sEq(base.S, "nil")))
		}
		return
	}
	if strings.HasPrefix(base.S, "(obj ") || strings.HasPrefix(base.S, "(fld ") || strings.HasPrefix(base.S, "(elm ") {
		return
	}
	c.oblige(st, "nilderef", sNot(sEq(base.S, "nil")), "pointer is not nil", c.safetyProps(), pos)
}

func (c *fnCtx) shift(st *State, op token.Token, x, y SymVal, xt, yt types.Type, pos token.Pos) SymVal {
	if c.bv {
		return c.bvShift(op, x, y, xt, yt)
	}
	// Go: shift counts >= width give 0 (or -1 for negative >>)
	bits, _, _ := intInfo(xt)
	if k, ok := isConstInt(y.S); ok && k.IsInt64() && k.Int64() >= int64(bits) {
		if op == token.SHL {
			return mkInt("0", xt)
		}
		return mkInt(sIte(app("<", x.S, "0"), "(- 1)", "0"), xt)
	}
	r := c.intBinop(st, op, x, y, xt, pos)
	if _, ok := isConstInt(y.S); !ok {
		big := app(">=", y.S, fmt.Sprint(bits))
		if op == token.SHL {
			r.S = sIte(big, "0", r.S)
		} else {
			r.S = sIte(big, sIte(app("<", x.S, "0"), "(- 1)", "0"), r.S)
		}
	}
	return r
}

func (c *fnCtx) execUnOp(st *State, in *ssa.UnOp) {
	switch in.Op {
	case token.MUL: // load
		a := c.val(st, in.X)
		c.nilCheck(st, a, in.Pos())
		locs, t := c.addrLocs(st, in.X)
		if locs == nil {
			c.set(in, c.freshVal(st, in.Type(), "load"))
			return
		}
		v := c.loadLocs(st, locs, t)
		v = c.nameVal(v, in.Name())
		v.T = in.Type()
		c.assumeWFB(st, v, c.loadBound(st, locs))
		c.vals[in] = v
	case token.SUB:
		x := c.val(st, in.X)
		switch x.K {
		case KInt:
			if c.bv {
				c.set(in, mkInt(app("bvneg", x.S), in.Type()))
			} else {
				c.set(in, mkInt(c.wrap(app("-", x.S), in.Type()), in.Type()))
			}
		case KFloat:
			c.set(in, SymVal{K: KFloat, S: app("fp.neg", x.S)})
		default:
			c.set(in, c.freshVal(st, in.Type(), "neg"))
		}
	case token.NOT:
		x := c.val(st, in.X)
		c.set(in, mkBool(sNot(x.S)))
	case token.XOR:
		x := c.val(st, in.X)
		if c.bv {
			c.set(in, mkInt(app("bvnot", x.S), in.Type()))
		} else {
			_, signed, _ := intInfo(in.Type())
			if signed {
				c.set(in, mkInt(app("-", app("-", x.S), "1"), in.Type()))
			} else {
				bits, _, _ := intInfo(in.Type())
				c.set(in, mkInt(app("-", pow2(bits).String(), "1", x.S), in.Type()))
			}
		}
	case token.ARROW:
		c.havocAll(st)
		c.set(in, c.freshVal(st, in.Type(), "recv"))
	default:
		c.note("unop %s", in.Op)
		c.set(in, c.freshVal(st, in.Type(), "unop"))
	}
}

// assumeLoaded: facts true of every value read from well-formed memory.
func (c *fnCtx) assumeLoaded(st *State, v SymVal) {
	c.assumeWellFormed(st, v)
}

func (c *fnCtx) execIndexAddr(st *State, in *ssa.IndexAddr) {
	x := c.val(st, in.X)
	idx := c.val(st, in.Index)
	idxS := c.toIndexInt(idx, in.Index.Type())
	switch xt := in.X.Type().Underlying().(type) {
	case *types.Slice:
		c.boundsCheck(st, idxS, x.Fs[2].S, in.Pos())
		r := app("elm", x.Fs[0].S, c.addI(x.Fs[1].S, idxS))
		c.set(in, mkRef(r, in.Type()))
		c.assume(st, app("=", app("rootid", c.vals[in].S), app("rootid", x.Fs[0].S)))
	case *types.Pointer:
		arr := xt.Elem().Underlying().(*types.Array)
		c.nilCheck(st, x, in.Pos())
		c.boundsCheck(st, idxS, c.intConstLen(arr.Len()), in.Pos())
		r := app("elm", x.S, c.idxToInt(idxS))
		c.set(in, mkRef(r, in.Type()))
		c.assume(st, app("=", app("rootid", c.vals[in].S), app("rootid", x.S)))
	default:
		c.note("IndexAddr on %s", in.X.Type())
		c.set(in, c.freshVal(st, in.Type(), "idxaddr"))
	}
}

func (c *fnCtx) intConstLen(n int64) string {
	if c.bv {
		return fmt.Sprintf("(_ bv%d 64)", n)
	}
	return fmt.Sprint(n)
}

// idxToInt converts an index term to the mathematical Int used inside Ref terms.
func (c *fnCtx) idxToInt(s string) string {
	if c.bv {
		return app("bv2nat", s)
	}
	return s
}

func (c *fnCtx) addI(a, b string) string {
	if c.bv {
		return app("+", app("bv2nat", a), app("bv2nat", b))
	}
	if a == "0" {
		return b
	}
	return app("+", a, b)
}

// toIndexInt widens an index of any integer type to the 64-bit index domain.
func (c *fnCtx) toIndexInt(idx SymVal, t types.Type) string {
	if !c.bv {
		return idx.S
	}
	bits, signed, _ := intInfo(t)
	if bits == 64 {
		return idx.S
	}
	if signed {
		return app(fmt.Sprintf("(_ sign_extend %d)", 64-bits), idx.S)
	}
	return app(fmt.Sprintf("(_ zero_extend %d)", 64-bits), idx.S)
}

func (c *fnCtx) boundsCheck(st *State, idx, length string, pos token.Pos) {
	goal := sAnd(c.cmpS("<=", c.zeroInt(), idx), c.cmpS("<", idx, length))
	if !c.checkPanics {
		c.assume(st, goal)
		return
	}
	c.oblige(st, "bounds", goal, "index in range", c.safetyProps(), pos)
}

func (c *fnCtx) execIndex(st *State, in *ssa.Index) {
	x := c.val(st, in.X)
	idx := c.val(st, in.Index)
	idxS := c.toIndexInt(idx, in.Index.Type())
	switch x.K {
	case KStr:
		c.boundsCheck(st, idxS, c.lenOfStr(x), in.Pos())
		n := c.define("byte", "Int", app("sat", x.S, c.idxToInt(idxS)))
		c.assume(st, sAnd(app("<=", "0", n), app("<=", n, "255")))
		if c.bv {
			c.set(in, mkInt(app("(_ int2bv 8)", n), in.Type()))
		} else {
			c.set(in, mkInt(n, in.Type()))
		}
	default:
		c.note("Index on %s", in.X.Type())
		c.set(in, c.freshVal(st, in.Type(), "index"))
	}
}

func (c *fnCtx) execSlice(st *State, in *ssa.Slice) {
	x := c.val(st, in.X)
	var lo, hi, max string
	if in.Low != nil {
		lo = c.toIndexInt(c.val(st, in.Low), in.Low.Type())
	} else {
		lo = c.zeroInt()
	}
	switch xt := in.X.Type().Underlying().(type) {
	case *types.Slice:
		if in.High != nil {
			hi = c.toIndexInt(c.val(st, in.High), in.High.Type())
		} else {
			hi = x.Fs[2].S
		}
		if in.Max != nil {
			max = c.toIndexInt(c.val(st, in.Max), in.Max.Type())
		} else {
			max = x.Fs[3].S
		}
		goal := sAnd(c.cmpS("<=", c.zeroInt(), lo), c.cmpS("<=", lo, hi), c.cmpS("<=", hi, max), c.cmpS("<=", max, x.Fs[3].S))
		c.sliceCheck(st, goal, in.Pos())
		v := SymVal{K: KSlice, T: in.Type(), Fs: []SymVal{x.Fs[0], mkMath(c.addInt(x.Fs[1].S, lo)), mkMath(c.subInt(hi, lo)), mkMath(c.subInt(max, lo))}}
		c.set(in, v)
	case *types.Basic: // string
		if in.High != nil {
			hi = c.toIndexInt(c.val(st, in.High), in.High.Type())
		} else {
			hi = c.lenOfStr(x)
		}
		goal := sAnd(c.cmpS("<=", c.zeroInt(), lo), c.cmpS("<=", lo, hi), c.cmpS("<=", hi, c.lenOfStr(x)))
		c.sliceCheck(st, goal, in.Pos())
		n := c.define("sub", "Str", app("ssub", x.S, c.idxToInt(lo), c.idxToInt(hi)))
		c.assume(st, sEq(c.lenOfStr(SymVal{K: KStr, S: n}), c.subInt(hi, lo)))
		if !c.bv {
			// the characters of s[lo:hi] are those of s from lo on
			k := c.fresh("qk")
			c.assume(st, fmt.Sprintf("(forall ((%s Int)) (! (=> (and (<= 0 %s) (< %s %s)) (= (sat %s %s) (sat %s (+ %s %s)))) :pattern ((sat %s %s))))",
				k, k, k, c.subInt(hi, lo), n, k, x.S, c.idxToInt(lo), k, n, k))
		}
		c.set(in, SymVal{K: KStr, S: n})
	case *types.Pointer: // pointer to array
		arr := xt.Elem().Underlying().(*types.Array)
		n := c.intConstLen(arr.Len())
		if in.High != nil {
			hi = c.toIndexInt(c.val(st, in.High), in.High.Type())
		} else {
			hi = n
		}
		if in.Max != nil {
			max = c.toIndexInt(c.val(st, in.Max), in.Max.Type())
		} else {
			max = n
		}
		c.nilCheck(st, x, in.Pos())
		goal := sAnd(c.cmpS("<=", c.zeroInt(), lo), c.cmpS("<=", lo, hi), c.cmpS("<=", hi, max), c.cmpS("<=", max, n))
		c.sliceCheck(st, goal, in.Pos())
		v := SymVal{K: KSlice, T: in.Type(), Fs: []SymVal{{K: KRef, S: x.S}, mkMath(lo), mkMath(c.subInt(hi, lo)), mkMath(c.subInt(max, lo))}}
		c.set(in, v)
	default:
		c.note("Slice on %s", in.X.Type())
		c.set(in, c.freshVal(st, in.Type(), "slice"))
	}
}

func (c *fnCtx) addInt(a, b string) string {
	if c.bv {
		return app("bvadd", a, b)
	}
	if a == "0" {
		return b
	}
	if b == "0" {
		return a
	}
	return app("+", a, b)
}

func (c *fnCtx) subInt(a, b string) string {
	if c.bv {
		return app("bvsub", a, b)
	}
	if b == "0" {
		return a
	}
	return app("-", a, b)
}

func (c *fnCtx) sliceCheck(st *State, goal string, pos token.Pos) {
	if !c.checkPanics {
		c.assume(st, goal)
		return
	}
	c.oblige(st, "slice", goal, "slice bounds in range", c.safetyProps(), pos)
}

func (c *fnCtx) execMakeSlice(st *State, in *ssa.MakeSlice) {
	ln := c.toIndexInt(c.val(st, in.Len), in.Len.Type())
	cp := c.toIndexInt(c.val(st, in.Cap), in.Cap.Type())
	lim := "281474976710656"
	if c.bv {
		lim = "(_ bv281474976710656 64)"
	}
	goal := sAnd(c.cmpS("<=", c.zeroInt(), ln), c.cmpS("<=", ln, cp), c.cmpS("<=", cp, lim))
	if c.checkPanics {
		c.oblige(st, "makesize", goal, "0 <= len <= cap <= 2^48", c.safetyProps(), in.Pos())
	} else {
		c.assume(st, goal)
	}
	r := c.allocRef(st)
	v := SymVal{K: KSlice, T: in.Type(), Fs: []SymVal{{K: KRef, S: r}, mkMath(c.zeroInt()), mkMath(ln), mkMath(cp)}}
	c.set(in, v)
	// zero-initialised contents: for scalar element types we record it with a
	// quantified fact only when a contract needs it (kept abstract here)
}

func (c *fnCtx) execLookup(st *State, in *ssa.Lookup) {
	x := c.val(st, in.X)
	if x.K == KStr {
		idx := c.val(st, in.Index)
		idxS := c.toIndexInt(idx, in.Index.Type())
		c.boundsCheck(st, idxS, c.lenOfStr(x), in.Pos())
		n := c.define("byte", "Int", app("sat", x.S, c.idxToInt(idxS)))
		c.assume(st, sAnd(app("<=", "0", n), app("<=", n, "255")))
		if c.bv {
			c.set(in, mkInt(app("(_ int2bv 8)", n), in.Type()))
		} else {
			c.set(in, mkInt(n, in.Type()))
		}
		return
	}
	// map lookup: unconstrained
	c.set(in, c.freshVal(st, in.Type(), "lookup"))
}

func (c *fnCtx) checkMapUpdate(st *State, in *ssa.MapUpdate) {
	// maps are opaque; nothing to update in the model
}

// ---------------------------------------------------------------------------
// Interfaces

func (c *fnCtx) makeIface(st *State, x SymVal, from, to types.Type, pos token.Pos) SymVal {
	if x.K == KIface {
		return x
	}
	if x.K == KNilLit {
		return mkIface("nilI", to)
	}
	c.checkTypeInv(st, x, from, pos)
	tag := fmt.Sprint(c.g.tagOf(from))
	switch x.K {
	case KRef:
		return mkIface(app("mkI", tag, "0", x.S), to)
	case KBool:
		return mkIface(app("mkI", tag, app("b2i", x.S), "nil"), to)
	case KInt:
		if c.bv {
			return mkIface(app("mkI", tag, app("bv2nat", x.S), "nil"), to)
		}
		return mkIface(app("mkI", tag, x.S, "nil"), to)
	case KFloat:
		b := c.define("box", "Int", app("box_fp", x.S))
		c.assume(st, app("=", app("unbox_fp", b), x.S))
		return mkIface(app("mkI", tag, b, "nil"), to)
	case KStr:
		b := c.define("box", "Int", app("box_str", x.S))
		c.assume(st, app("=", app("unbox_str", b), x.S))
		return mkIface(app("mkI", tag, b, "nil"), to)
	case KOpq:
		return mkIface(app("mkI", tag, x.S, "nil"), to)
	}
	// aggregate: fresh box with per-leaf projections
	b := c.fresh("box")
	c.declare(b, "Int")
	var facts []string
	ls := leaves(from)
	fl := flatten(x)
	for i, l := range ls {
		fn := c.unboxFn(from, l)
		facts = append(facts, app("=", app(fn, b), fl[i].S))
	}
	c.assume(st, sAnd(facts...))
	return mkIface(app("mkI", tag, b, "nil"), to)
}

func (c *fnCtx) unboxFn(t types.Type, l leaf) string {
	name := smtName("unbox!" + typeKey(t) + l.Suffix)
	if !c.unboxDeclared[name] {
		c.unboxDeclared[name] = true
		fmt.Fprintf(&c.sb, "(declare-fun %s (Int) %s)\n", name, c.sortOf(l.K, l.T))
	}
	return name
}

// unbox extracts the dynamic value of type t from interface term x.
func (c *fnCtx) unbox(st *State, x string, t types.Type) SymVal {
	switch kindOf(t) {
	case KRef:
		// assumption A8: interface values never hold typed nil pointers
		if !strings.Contains(x, "!q") {
			c.assume(st, sImp(app("=", app("itag", x), fmt.Sprint(c.g.tagOf(t))), sNot(sEq(app("iref", x), "nil"))))
		}
		return mkRef(app("iref", x), t)
	case KBool:
		return mkBool(app("=", app("ipay", x), "1"))
	case KInt:
		if c.bv {
			bits, _, _ := intInfo(t)
			return mkInt(app(fmt.Sprintf("(_ int2bv %d)", bits), app("ipay", x)), t)
		}
		return mkInt(app("ipay", x), t)
	case KFloat:
		return SymVal{K: KFloat, T: t, S: app("unbox_fp", app("ipay", x))}
	case KStr:
		if !strings.Contains(x, "!q") && !c.bv {
			c.assume(st, app("<=", "0", app("slen", app("unbox_str", app("ipay", x)))))
		}
		return SymVal{K: KStr, T: t, S: app("unbox_str", app("ipay", x))}
	case KOpq:
		return SymVal{K: KOpq, T: t, S: app("ipay", x)}
	}
	var terms []string
	for _, l := range leaves(t) {
		terms = append(terms, app(c.unboxFn(t, l), app("ipay", x)))
	}
	v, _ := unflatten(t, terms)
	return v
}

func (c *fnCtx) implementsFn(it types.Type) string {
	name := smtName("impl!" + typeKey(it))
	if c.implDone[name] {
		return name
	}
	c.implDone[name] = true
	fmt.Fprintf(&c.sb, "(declare-fun %s (Int) Bool)\n", name)
	iface := it.Underlying().(*types.Interface)
	c.assertGlobal(sNot(app(name, "0")))
	for _, t := range c.g.tagTypes {
		tag := c.g.tags[fullTypeKey(t)]
		if types.Implements(t, iface) {
			c.assertGlobal(app(name, fmt.Sprint(tag)))
		} else {
			c.assertGlobal(sNot(app(name, fmt.Sprint(tag))))
		}
	}
	return name
}

func (c *fnCtx) execTypeAssert(st *State, in *ssa.TypeAssert) {
	x := c.val(st, in.X)
	if x.K != KIface {
		c.note("type assertion on non-interface value")
		c.set(in, c.freshVal(st, in.Type(), "ta"))
		return
	}
	var ok string
	var v SymVal
	if _, isI := in.AssertedType.Underlying().(*types.Interface); isI {
		ok = app(c.implementsFn(in.AssertedType), app("itag", x.S))
		v = mkIface(x.S, in.AssertedType)
	} else {
		ok = app("=", app("itag", x.S), fmt.Sprint(c.g.tagOf(in.AssertedType)))
		v = c.unbox(st, x.S, in.AssertedType)
	}
	okN := c.define("taok", "Bool", ok)
	if in.CommaOk {
		zero := c.zeroVal(in.AssertedType)
		v = c.nameVal(v, in.Name())
		// well-formedness of the unboxed value holds only when ok
		c.assumeWFIf(st, okN, v)
		res := SymVal{K: KTuple, T: in.Type(), Fs: []SymVal{iteVal(okN, v, zero), mkBool(okN)}}
		c.vals[in] = res
		return
	}
	if c.checkPanics && !c.receiverAssert(in) {
		c.oblige(st, "typeassert", okN, "dynamic type is "+typeKey(in.AssertedType), c.safetyProps(), in.Pos())
	} else {
		c.assume(st, okN)
	}
	v = c.nameVal(v, in.Name())
	v.T = in.Type()
	c.assumeWellFormed(st, v)
	c.vals[in] = v
}

func (c *fnCtx) assumeWFIf(st *State, cond string, v SymVal) {
	tmp := &State{cur: "true", top: st.top, heap: st.heap, ghost: st.ghost, base: st.base}
	c.assumeWellFormed(tmp, v)
	if tmp.cur != "true" {
		c.assume(st, sImp(cond, tmp.cur))
	}
}

// ---------------------------------------------------------------------------
// Representation invariants (assumed, never checked): in a function that says "uses repinv",
// every access to a field of a *T with a repinv declaration assumes that invariant of the
// object in the current state. They state how a data structure's ghost view relates to its
// concrete fields between calls of its own methods; the methods themselves never use them.

func (c *fnCtx) assumeRepInv(st *State, base SymVal, t types.Type) {
	if c.con == nil || !c.con.UsesRepInv {
		return
	}
	pt, ok := t.Underlying().(*types.Pointer)
	if !ok {
		return
	}
	n, ok := pt.Elem().(*types.Named)
	if !ok || n.Obj().Pkg() == nil {
		return
	}
	decls := c.g.repinvs[n.Obj().Pkg().Path()+"."+n.Obj().Name()]
	for _, d := range decls {
		env := c.newEnv(st, st)
		env.calleePkg = d.Pkg
		self := base
		self.T = t
		env.vars["self"] = self
		r, err := env.evalBool(d.Text)
		if err != nil {
			c.abort("%s: repinv: %v", d.Pos, err)
		}
		c.assume(st, sImp(sNot(sEq(base.S, "nil")), r))
		c.assumedUsed["representation invariant of "+n.Obj().Name()+" (repinv, assumed at field accesses)"] = true
	}
}

// ---------------------------------------------------------------------------
// Type invariants

func (c *fnCtx) checkTypeInv(st *State, v SymVal, t types.Type, pos token.Pos) {
	n, ok := t.(*types.Named)
	if !ok || n.Obj().Pkg() == nil {
		return
	}
	decls := c.g.typeinvs[n.Obj().Pkg().Path()+"."+n.Obj().Name()]
	for _, d := range decls {
		env := c.newEnv(st, st)
		vv := v
		vv.T = t
		env.vars["self"] = vv
		r, err := env.evalBool(d.Text)
		if err != nil {
			c.note("typeinv %s: %v", d.Pos, err)
			continue
		}
		c.oblige(st, "typeinv:"+n.Obj().Name(), r, d.Text, d.Props, pos)
	}
}

// ---------------------------------------------------------------------------
// protect / monotone declarations (C04, C05, C06)

func (c *fnCtx) checkProtect(st *State, in *ssa.Store) {
	// filled in by frames.go
	c.protectStore(st, in)
}

// ---------------------------------------------------------------------------
// Loop modification analysis

func (c *fnCtx) loopMods(li *loopInfo) (mods []string, all bool) {
	set := map[string]bool{}
	li.localOnly = map[string]bool{}
	nonLocal := map[string]bool{}
	li.outerAllocs = map[string][]*ssa.Alloc{}
	for b := range li.body {
		for _, in := range b.Instrs {
			switch in := in.(type) {
			case *ssa.Store:
				root := allocRoot(in.Addr)
				for _, m := range c.staticStoreComps(in.Addr) {
					set[m] = true
					if root == nil {
						nonLocal[m] = true
					} else if !li.body[root.Block()] {
						li.outerAllocs[m] = append(li.outerAllocs[m], root)
					}
				}
			case *ssa.Alloc:
				pt := in.Type().Underlying().(*types.Pointer).Elem()
				for _, l := range c.leafLocs("nil", pt) {
					set[l.comp] = true
				}
			case ssa.CallInstruction:
				ms, a := c.callMods(in.Common())
				if a {
					return nil, true
				}
				for _, m := range ms {
					set[m] = true
					nonLocal[m] = true
				}
			case *ssa.Go, *ssa.Send, *ssa.Select:
				return nil, true
			case *ssa.UnOp:
				if in.Op == token.ARROW {
					return nil, true
				}
			}
		}
	}
	for m := range set {
		mods = append(mods, m)
		if !nonLocal[m] {
			li.localOnly[m] = true
		}
	}
	sort.Strings(mods)
	return mods, false
}

func (c *fnCtx) loopAllocates(li *loopInfo) bool {
	for b := range li.body {
		for _, in := range b.Instrs {
			switch in.(type) {
			case *ssa.Alloc, *ssa.MakeSlice, *ssa.MakeMap, *ssa.MakeClosure, ssa.CallInstruction, *ssa.MakeInterface, *ssa.Convert:
				return true
			}
		}
	}
	return false
}

func (c *fnCtx) loopGhostMods(li *loopInfo) map[string]bool {
	out := map[string]bool{}
	for b := range li.body {
		for _, in := range b.Instrs {
			if ci, ok := in.(ssa.CallInstruction); ok {
				for _, gk := range c.callGhostMods(ci.Common()) {
					out[gk] = true
				}
			}
		}
	}
	return out
}

// staticStoreComps lists the components a store through addr may write,
// from the static type of the address alone.
func (c *fnCtx) staticStoreComps(addr ssa.Value) []string {
	pt, ok := addr.Type().Underlying().(*types.Pointer)
	if !ok {
		return nil
	}
	var locs []leafLoc
	if fa, ok := addr.(*ssa.FieldAddr); ok {
		stt := fa.X.Type().Underlying().(*types.Pointer).Elem()
		stru := stt.Underlying().(*types.Struct)
		ft := stru.Field(fa.Field).Type()
		if _, isArr := ft.Underlying().(*types.Array); !isArr && kindOf(ft) != KStruct {
			locs = c.fieldLocs("nil", typeKey(stt), stru, fa.Field)
		}
	}
	if locs == nil {
		locs = c.leafLocs("nil", pt.Elem())
	}
	var out []string
	for _, l := range locs {
		out = append(out, l.comp)
	}
	return out
}


// allocRoot returns the allocation a store address is rooted at (field/element chains of a
// local Alloc), or nil.
func allocRoot(addr ssa.Value) *ssa.Alloc {
	for {
		switch a := addr.(type) {
		case *ssa.Alloc:
			return a
		case *ssa.FieldAddr:
			addr = a.X
		case *ssa.IndexAddr:
			if _, isSlice := a.X.Type().Underlying().(*types.Slice); isSlice {
				return nil
			}
			addr = a.X
		default:
			return nil
		}
	}
}


// receiverAssert: b.Receiver().(*T) in a built-in method. The method tables bind each method to a
// receiver of the table's own type (builtinAttr); the sweep takes that as an assumption (A10).
func (c *fnCtx) receiverAssert(in *ssa.TypeAssert) bool {
	call, ok := in.X.(*ssa.Call)
	if !ok {
		return false
	}
	f, ok := call.Call.Value.(*ssa.Function)
	if !ok || f.Name() != "Receiver" {
		return false
	}
	c.note("assumed: %s holds a %s (method table binding)", "b.Receiver()", typeKey(in.AssertedType))
	return true
}
