package main

import (
	"fmt"
	"go/token"
	"go/types"
	"strings"
)

// Bit-vector mode: every Go integer is a bit-vector of its own width.

func (c *fnCtx) bvBinop(st *State, op token.Token, x, y SymVal, t types.Type, pos token.Pos) SymVal {
	ot := x.T
	if ot == nil {
		ot = y.T
	}
	if ot == nil {
		ot = t
	}
	_, signed, _ := intInfo(ot)
	sel := func(s, u string) string {
		if signed {
			return s
		}
		return u
	}
	switch op {
	case token.ADD:
		return mkInt(app("bvadd", x.S, y.S), t)
	case token.SUB:
		return mkInt(app("bvsub", x.S, y.S), t)
	case token.MUL:
		return mkInt(app("bvmul", x.S, y.S), t)
	case token.QUO:
		c.divCheck(st, y, pos)
		return mkInt(app(sel("bvsdiv", "bvudiv"), x.S, y.S), t)
	case token.REM:
		c.divCheck(st, y, pos)
		return mkInt(app(sel("bvsrem", "bvurem"), x.S, y.S), t)
	case token.AND:
		return mkInt(app("bvand", x.S, y.S), t)
	case token.OR:
		return mkInt(app("bvor", x.S, y.S), t)
	case token.XOR:
		return mkInt(app("bvxor", x.S, y.S), t)
	case token.AND_NOT:
		return mkInt(app("bvand", x.S, app("bvnot", y.S)), t)
	case token.EQL:
		return mkBool(sEq(x.S, y.S))
	case token.NEQ:
		return mkBool(sNot(sEq(x.S, y.S)))
	case token.LSS:
		return mkBool(app(sel("bvslt", "bvult"), x.S, y.S))
	case token.LEQ:
		return mkBool(app(sel("bvsle", "bvule"), x.S, y.S))
	case token.GTR:
		return mkBool(app(sel("bvsgt", "bvugt"), x.S, y.S))
	case token.GEQ:
		return mkBool(app(sel("bvsge", "bvuge"), x.S, y.S))
	}
	c.note("bv binop %s", op)
	return c.freshVal(st, t, "binop")
}

func (c *fnCtx) bvResize(s string, from int, fromSigned bool, to int) string {
	switch {
	case to == from:
		return s
	case to < from:
		return app(fmt.Sprintf("(_ extract %d 0)", to-1), s)
	case fromSigned:
		return app(fmt.Sprintf("(_ sign_extend %d)", to-from), s)
	}
	return app(fmt.Sprintf("(_ zero_extend %d)", to-from), s)
}

func (c *fnCtx) bvConvert(x SymVal, from, to types.Type) SymVal {
	fb, fs, _ := intInfo(from)
	tb, _, _ := intInfo(to)
	return mkInt(c.bvResize(x.S, fb, fs, tb), to)
}

func (c *fnCtx) bvShift(op token.Token, x, y SymVal, xt, yt types.Type) SymVal {
	xb, xs, _ := intInfo(xt)
	yb, _, _ := intInfo(yt)
	// shift count is unsigned (or a non-negative signed value); resize to x's width, saturating
	var cnt string
	if yb > xb {
		// if any high bit is set the count is >= width
		hi := app(fmt.Sprintf("(_ extract %d %d)", yb-1, xb), y.S)
		lo := app(fmt.Sprintf("(_ extract %d 0)", xb-1), y.S)
		cnt = sIte(sEq(hi, fmt.Sprintf("(_ bv0 %d)", yb-xb)), lo, fmt.Sprintf("(_ bv%d %d)", xb, xb))
	} else {
		cnt = c.bvResize(y.S, yb, false, xb)
	}
	switch op {
	case token.SHL:
		return mkInt(app("bvshl", x.S, cnt), xt)
	default:
		if xs {
			return mkInt(app("bvashr", x.S, cnt), xt)
		}
		return mkInt(app("bvlshr", x.S, cnt), xt)
	}
}

// bvBinary evaluates a spec-level binary operator in bv mode.
func (e *Env) bvBinary(op token.Token, x, y SymVal) (SymVal, error) {
	c := e.c
	w := 64
	if !strings.HasPrefix(x.S, "$lit:") {
		w = bvWidth(x)
	} else if !strings.HasPrefix(y.S, "$lit:") {
		w = bvWidth(y)
	}
	x, y = e.fixLit(x, w), e.fixLit(y, w)
	t := x.T
	if t == nil {
		t = y.T
	}
	if t == nil {
		t = types.Typ[types.Int64]
	}
	x.T, y.T = t, t
	if op == token.SHL || op == token.SHR {
		return c.bvShift(op, x, y, t, t), nil
	}
	r := c.bvBinop(e.st, op, x, y, t, token.NoPos)
	if r.K == KBool {
		return r, nil
	}
	r.T = t
	return r, nil
}
