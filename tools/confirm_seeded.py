#!/usr/bin/env python3
"""Confirm each seeded change independently in a scratch worktree of /repo:
   (1) applies and compiles, (2) the unedited test suite passes with it, (3) the demonstration
   fails with it, (4) the demonstration passes without it.  Writes seeded/<id>/confirm.json."""
import json, os, re, shutil, subprocess, sys, glob
ENV = dict(os.environ, GOFLAGS="-mod=mod", GOPROXY="off")
def sh(cmd, cwd, timeout=900):
    r = subprocess.run(cmd, cwd=cwd, shell=True, env=ENV, stdout=subprocess.PIPE, stderr=subprocess.STDOUT, text=True, timeout=timeout)
    return r.returncode, r.stdout
ids = sys.argv[1:] or sorted(os.path.basename(d.rstrip('/')) for d in glob.glob('/verif/seeded/*/'))
for mid in ids:
    d = '/verif/seeded/' + mid
    wt = '/tmp/confirm_' + mid
    subprocess.run(['git', '-C', '/repo', 'worktree', 'remove', '--force', wt], stdout=subprocess.DEVNULL, stderr=subprocess.DEVNULL)
    sh('git worktree add -q --detach %s HEAD' % wt, '/repo')
    res = {'id': mid}
    try:
        demo = open(d + '/demo_test.go').read()
        m = re.search(r'go test[^\n]*?\./((?:starlarkstruct|starlark|lib/\w+|internal/\w+|resolve|syntax))/?', demo)
        pkgdir = (m.group(1).rstrip('/') if m else 'starlark')
        mrun = re.search(r'-run\s+[\'"]?([A-Za-z0-9_|^$.*()]+)', demo)
        run = mrun.group(1) if mrun else '.'
        race = '-race ' if re.search(r'go test[^\n]*-race', demo) else ''
        res.update(pkgdir=pkgdir, run=run)
        shutil.copy(d + '/demo_test.go', os.path.join(wt, pkgdir, 'zz_seeded_demo_test.go'))
        democmd = 'go test %s-vet=off -count=1 -run %r ./%s/' % (race, run, pkgdir)
        rc, out = sh(democmd, wt); res['demo_without_change'] = 'pass' if rc == 0 else 'FAIL'; res['demo_without_tail'] = out[-300:]
        rc, out = sh('git apply %s/patch.diff' % d, wt); res['applies'] = rc == 0
        if rc == 0:
            rc, out = sh(democmd, wt); res['demo_with_change'] = 'fail' if rc != 0 else 'PASSES'; res['demo_with_tail'] = out[-600:]
            os.remove(os.path.join(wt, pkgdir, 'zz_seeded_demo_test.go'))
            rc, out = sh('go build ./... && go test -vet=off -count=1 ./...', wt); res['suite_with_change'] = 'pass' if rc == 0 else 'FAIL'; res['suite_tail'] = out[-400:]
        res['confirmed'] = bool(res.get('applies') and res.get('demo_without_change') == 'pass' and res.get('demo_with_change') == 'fail' and res.get('suite_with_change') == 'pass')
    except Exception as e:
        res['error'] = repr(e)
    finally:
        subprocess.run(['git', '-C', '/repo', 'worktree', 'remove', '--force', wt], stdout=subprocess.DEVNULL, stderr=subprocess.DEVNULL)
    json.dump(res, open(d + '/confirm.json', 'w'), indent=1)
    print(mid, 'CONFIRMED' if res.get('confirmed') else 'NOT CONFIRMED', {k: v for k, v in res.items() if k in ('applies', 'demo_without_change', 'demo_with_change', 'suite_with_change', 'error')}, flush=True)
