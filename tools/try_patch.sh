#!/bin/bash
# usage: tools/try_patch.sh <patch.diff> <property> [extra check args]
# Applies a seeded change to /repo, runs the check for the property, and undoes it.
# Uncommitted edits of the contract files (zz_verif_*.go) are left alone.
set -u
patch=$(realpath "$1"); prop=$2; shift 2
cd /repo || exit 2
if ! git diff --quiet -- . ':!*zz_verif_*'; then echo "/repo has uncommitted changes"; exit 2; fi
if ! git apply "$patch"; then echo "PATCH DOES NOT APPLY"; exit 3; fi
cd /verif
VERIF_EVIDENCE_DIR=/tmp/verif-evidence-scratch ./check --property "$prop" -v "$@"
rc=$?
git -C /repo checkout -- . ':!*zz_verif_*'
echo "check exit code: $rc"
exit $rc
