#!/usr/bin/env python3
"""Run every seeded change against the check of its property, in a scratch copy of /repo
(VERIF_REPO), and record the outcome in seeded/<id>/meta.json and seeded/RESULTS.md."""
import json, os, re, subprocess, sys, glob, shutil
args = sys.argv[1:]
wt = '/tmp/seedrun'
# --worker k/n: this process handles every n-th change (own worktree), for parallel runs
if args and args[0] == '--worker':
    k, n = map(int, args[1].split('/'))
    args = args[2:]
    wt = '/tmp/seedrun_%d' % k
else:
    k, n = 0, 1
ids = args or sorted(os.path.basename(d.rstrip('/')) for d in glob.glob('/verif/seeded/*/'))
ids = [x for i, x in enumerate(ids) if i % n == k]
subprocess.run(['git', '-C', '/repo', 'worktree', 'remove', '--force', wt], stdout=subprocess.DEVNULL, stderr=subprocess.DEVNULL)
subprocess.run(['git', '-C', '/repo', 'worktree', 'add', '-q', '--detach', wt, 'HEAD'], check=True)
# uncommitted contract edits
for f in glob.glob('/repo/**/zz_verif_*.go', recursive=True):
    shutil.copy(f, f.replace('/repo/', wt + '/'))
rows = []
try:
    for mid in ids:
        d = '/verif/seeded/' + mid
        prop = mid.split('_')[0]
        r = subprocess.run(['git', '-C', wt, 'apply', d + '/patch.diff'])
        if r.returncode != 0:
            rows.append((mid, prop, 'PATCH-FAILS', [])); continue
        env = dict(os.environ, VERIF_REPO=wt, VERIF_EVIDENCE_DIR='/tmp/verif-evidence-scratch')
        out = subprocess.run(['./check', '--property', prop, '-v'], cwd='/verif', env=env, stdout=subprocess.PIPE, stderr=subprocess.STDOUT, text=True).stdout
        subprocess.run('git -C %s checkout -- . ":!*zz_verif_*"' % wt, shell=True)
        viol = re.findall(r'^    (\S+) -- (.*)$', out, re.M)
        caught = 'VIOLATION property=%s' % prop in out
        rows.append((mid, prop, 'caught' if caught else 'MISSED', viol))
        meta = {}
        mp = d + '/meta.json'
        if os.path.exists(mp):
            meta = json.load(open(mp))
        conf = json.load(open(d + '/confirm.json')) if os.path.exists(d + '/confirm.json') else {}
        notes = open(d + '/notes.md').read() if os.path.exists(d + '/notes.md') else ''
        meta.update({'id': mid, 'breaks_property': prop,
                     'needs_to_manifest': meta.get('needs_to_manifest') or notes[:1500],
                     'independently_confirmed': conf.get('confirmed'),
                     'what_was_run': ['tools/confirm_seeded.py %s  (applies; unedited suite passes with it; demo fails with it; demo passes without it)' % mid,
                                      'tools/run_seeded.py %s  (./check --property %s on a scratch copy with the change applied)' % (mid, prop)],
                     'check_outcome': 'caught' if caught else 'missed',
                     'failing_obligations': [v[0] + ' -- ' + v[1] for v in viol][:12]})
        json.dump(meta, open(mp, 'w'), indent=1)
        print(mid, 'caught' if caught else 'MISSED', [v[0] for v in viol][:4], flush=True)
finally:
    subprocess.run(['git', '-C', '/repo', 'worktree', 'remove', '--force', wt], stdout=subprocess.DEVNULL, stderr=subprocess.DEVNULL)
# RESULTS.md is rebuilt from every meta.json, so partial runs keep the other rows
with open('/verif/seeded/RESULTS.md', 'w') as f:
    f.write('| seeded change | property | outcome | obligations that fail |\n|---|---|---|---|\n')
    for mp in sorted(glob.glob('/verif/seeded/*/meta.json')):
        m = json.load(open(mp))
        f.write('| %s | %s | %s | %s |\n' % (m.get('id'), m.get('breaks_property'), m.get('check_outcome'),
                '; '.join(x.split(' -- ')[0] for x in (m.get('failing_obligations') or [])[:4])))
