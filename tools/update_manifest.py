#!/usr/bin/env python3
"""Refresh derived MANIFEST.json fields (hook commits, engine property list) and validate it."""
import json, subprocess, sys
m = json.load(open('/verif/MANIFEST.json'))
log = subprocess.run(['git', '-C', '/repo', 'log', '--format=%h %s'], stdout=subprocess.PIPE, text=True).stdout.splitlines()
m['hooks']['source_commits'] = [l.split()[0] for l in log if l.split(' ', 1)[1].startswith('verif:')]
claimed = sorted(c['property_id'] for c in m['checks'])
for e in m.get('engines', []):
    e['serves_properties'] = claimed
m['not_applicable'] = [x for x in m.get('not_applicable', []) if x['property_id'] not in claimed]
json.dump(m, open('/verif/MANIFEST.json', 'w'), indent=1)
try:
    import jsonschema
    jsonschema.validate(m, json.load(open('/root/.vp/MANIFEST.schema.json')))
    print("MANIFEST ok:", claimed)
except ImportError:
    print("jsonschema not available")
