#!/bin/bash
# Runs the thorough tier of every claimed property, one after the other, and records the wall time
# of each in /tmp/thorough_summary.log (used to keep the thorough commands within a sane budget).
cd /verif
for p in C12 C11 C03 C19 C08; do
  s=$(date +%s)
  ./check --property $p --tier thorough > /tmp/thorough_$p.log 2>&1
  rc=$?
  e=$(date +%s)
  echo "$p rc=$rc $((e-s))s $(grep '^property' /tmp/thorough_$p.log)" >> /tmp/thorough_summary.log
done
