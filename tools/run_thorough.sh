#!/bin/bash
# Runs the thorough tier of every claimed property, one after the other, and records the wall time
# of each in /tmp/thorough_summary.log (used to keep the thorough commands within a sane budget).
cd /verif
for p in C07 C09 C08 C16 C19 C05 C04 C20 C13 C10 C06 C17 C11 C03 C02 C12; do
  s=$(date +%s)
  ./check --property $p --tier thorough > /tmp/thorough_$p.log 2>&1
  rc=$?
  e=$(date +%s)
  echo "$p rc=$rc $((e-s))s $(grep '^property' /tmp/thorough_$p.log)" >> /tmp/thorough_summary.log
done
