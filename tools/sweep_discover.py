#!/usr/bin/env python3
"""Discovery for the C02 safety sweep: run the sweep over every module function, discharge all
obligations with a short limit, and record as *claimed* exactly the functions all of whose sweep
obligations are discharged on the current tree. The list is committed (baseline/sweep_claimed.json);
checks never write it."""
import concurrent.futures as cf, importlib.machinery, importlib.util, json, os, sys, tempfile, shutil, collections
VERIF = '/verif'
loader = importlib.machinery.SourceFileLoader('check_main', VERIF + '/check')
spec = importlib.util.spec_from_loader('check_main', loader)
chk = importlib.util.module_from_spec(spec); loader.exec_module(chk)
chk.ensure_vcgen()
scratch = tempfile.mkdtemp(prefix='sweep-')
out, log, _ = chk.run_vcgen(['C02'], scratch, ['-sweepall'])
if out is None:
    print(log); sys.exit(1)
obls = [o for o in out['obligations'] if '/safe:' in o['name'] and o['backend'] == 'smt']
print(len(obls), 'obligations')
res = {}
def one(o):
    a, outp, dt = chk.solve_one(write(o), 'z3-new', 4, 0)
    return o['name'], a
def write(o):
    import re
    p = os.path.join(scratch, re.sub(r'[^A-Za-z0-9_.-]', '_', o['name']) + '.smt2')
    open(p, 'w').write('(set-logic ALL)\n' + o['smt'] + '(check-sat)\n')
    return p
with cf.ThreadPoolExecutor(max_workers=16) as ex:
    for name, a in ex.map(one, obls):
        res[name] = a
byfn = collections.defaultdict(list)
for o in obls:
    ok = (res[o['name']] != 'unsat') if o.get('cover') else (res[o['name']] == 'unsat')
    byfn[o['fn']].append((o['name'], o['kind'], ok, res[o['name']]))
keymap = {f['fn']: f['key'] for f in out['functions']}
claimed, unclaimed = [], {}
for fn, rs in sorted(byfn.items()):
    real = [r for r in rs if r[1] != 'exit-sat']
    if not real:
        continue
    if all(r[2] for r in rs):
        claimed.append(keymap[fn])
    else:
        unclaimed[fn] = [r[0].split('/safe:')[1] + ':' + r[3] for r in rs if not r[2]][:6]
json.dump(sorted(claimed), open(VERIF + '/baseline/sweep_claimed.json', 'w'), indent=0)
json.dump(unclaimed, open(VERIF + '/baseline/sweep_unclaimed.json', 'w'), indent=0, sort_keys=True)
print('claimed', len(claimed), 'unclaimed', len(unclaimed))
kinds = collections.Counter(x.split('#')[0] for v in unclaimed.values() for x in v)
print(kinds.most_common(10))
shutil.rmtree(scratch, ignore_errors=True)
